"""C03 -- handshake completes only with the authentic peer, and both sides agree.

C03.auth.*     a key-holding adversary presents every combination of certificate (valid / wrong name /
               untrusted / expired / none) and CertificateVerify (signed with any of its keys / garbage)
               to the real client Context; the client finishes only after a CertificateVerify by the key of
               a certificate valid for the configured name (DNS name or IP literal), or a selected PSK.
C03.alter.*    honest client and server Contexts; the network replaces one byte (symbolic position,
               symbolic new value) of one handshake message; the endpoint that received it never completes.
C03.agree.*    honest Contexts under symbolic cipher-suite lists and a grid of ALPN lists, with and without
               resumption: both complete => equal traffic secrets, cipher suite, ALPN, resumption status;
               no common cipher suite / ALPN => neither completes.
Cryptography is ideal during exploration (vf/tlsmodel.py); counterexamples replay against real primitives.
"""
from __future__ import annotations

from .. import symx as sx
from .. import tlsmodel as tm
from ..runner import Ob
from . import c11
from .c11 import ENCODED, P, _feed, _tls, shims

ASSUMPTIONS = c11.ASSUMPTIONS[:2] + [
    "QUIC-level parts of C03 (version agreement, transport-parameter authentication of connection IDs, retry) are decided by C03.tp.* on connection.py; datagram loss/reordering does not reach the TLS layer (CRYPTO streams are reassembled in order: C10)",
    "one altered byte per run (any position, any new value); multi-byte alterations are outside the bound",
]

TYPE_NAMES = {1: "CH", 2: "SH", 4: "NST", 8: "EE", 11: "CERT", 13: "CR", 15: "CV", 20: "FIN"}


# ------------------------------------------------------------------ authentication
def auth_menu():
    m = [("EE", None)]
    for lab in ("valid", "wrongname", "untrusted", "expired"):
        m.append(("CERT", lab))
    for lab in ("valid", "wrongname", "untrusted", "expired"):
        m.append(("CV", lab))
    m += [("CV_BAD", None), ("FIN", None)]
    return m


def auth(server_name, psk):
    """like C11.flight.client, with the adversary owning four certificates; `valid` is valid for tm.NAME only"""
    base = c11.client_flight(auth_menu(), psk=psk, max_len=4, server_name=server_name)
    if server_name == tm.NAME:
        return base

    # for any other configured name no presented certificate is valid: completion is never legal
    def run():
        tm.path_reset()
        tls = _tls()
        B = sx.BufferClass()
        Pv = tm.provider()
        cs = tls.CipherSuite(c11.CIPHER)
        client = tm.make_client(tls, Pv, server_name=server_name)
        out = tm.bufs(tls, B)
        client.handle_message(b"", out)
        ch = out[tls.Epoch.INITIAL].data
        hello = tls.pull_client_hello(B(data=ch))
        sx.check(hello.server_name is None or hello.server_name == server_name, "ClientHello carries SNI %r for configured name %r" % (hello.server_name, server_name))
        adv = c11.ServerAdversary(tls, B, ch, cs)
        out = tm.bufs(tls, B)
        r = _feed(tls, client, adv.server_hello, out)
        sx.check(r is None, "genuine ServerHello refused")
        menu = auth_menu()
        sent = []
        for step in range(4):
            k = sx.Choice("kind%d" % step, len(menu))
            kind, lab = menu[k]
            msg = adv.message(kind, getattr(Pv, lab) if lab else None)
            sent.append(kind + ("(%s)" % lab if lab else ""))
            r = _feed(tls, client, msg, out)
            if r is not None:
                break
            sx.check(client.state != tls.State.CLIENT_POST_HANDSHAKE and not client.keylog.has(tls.Direction.ENCRYPT, tls.Epoch.ONE_RTT), "client configured for %r finished after %s although no certificate presented is valid for that name" % (server_name, " ".join(sent)))
        sx.reached()

    return run


# ------------------------------------------------------------------ alteration
MASKS = [1, 2, 4, 8, 16, 32, 64, 128, 255]


def _alter_bytes(msg, lo, hi, all_values=True):
    n = sx._len(msg)
    hi = min(hi, n - 1)
    assert lo <= hi, "empty shard"
    pos = sx.Int("pos", lo, hi)
    val = sx.Int("val", 0, 255)
    if sx.E.mode == "replay":
        b = bytes(msg)
        if not (lo <= pos <= hi) or b[pos] == val:
            raise sx.Infeasible()
        return b[:pos] + bytes([val]) + b[pos + 1 :]
    items = list(sx.SymBytes.of(msg).materialize())
    import z3

    if all_values:
        orig = sx._sel_chain(pos.e - lo, [sx._zi(x) for x in items[lo : hi + 1]])
        sx.assume(val != sx.SymInt(orig))
    else:
        # quick tier: the new value is the old one under one of the masks (bytes whose value is itself
        # symbolic -- MAC, signature, hash outputs -- still range over every other value)
        alts = []
        for i in range(lo, hi + 1):
            x = items[i]
            if isinstance(x, int):
                alts.append(z3.And(pos.e == i, z3.Or(*[val.e == (x ^ m) for m in MASKS])))
            else:
                alts.append(z3.And(pos.e == i, val.e != x))
        sx.assume(sx.SymBool(z3.Or(*alts)))
    for i in range(lo, hi + 1):
        items[i] = z3.If(pos.e == i, val.e, sx._zi(items[i]))
    return sx.SymBytes.from_items(items)


def _pump(tls, B, client, server, tamper, rounds=3):
    """run the handshake message by message; tamper(sender_is_client, msg) may replace a message"""
    dead = {"c": None, "s": None}
    out = tm.bufs(tls, B)
    client.handle_message(b"", out)
    c2s = tm.split_messages(out[tls.Epoch.INITIAL].data)
    for _ in range(rounds):
        s_out = tm.bufs(tls, B)
        for m in c2s:
            if dead["s"] is not None:
                break
            dead["s"] = _feed(tls, server, tamper(True, m), s_out)
        if dead["s"] is not None:
            break
        s2c = tm.split_messages(s_out[tls.Epoch.INITIAL].data) + tm.split_messages(s_out[tls.Epoch.HANDSHAKE].data) + tm.split_messages(s_out[tls.Epoch.ONE_RTT].data)
        c_out = tm.bufs(tls, B)
        for m in s2c:
            if dead["c"] is not None:
                break
            dead["c"] = _feed(tls, client, tamper(False, m), c_out)
        if dead["c"] is not None:
            break
        c2s = tm.split_messages(c_out[tls.Epoch.HANDSHAKE].data)
        if not c2s:
            break
    return dead


def _endpoints(tls, Pv, cfg, client_suites=None, server_suites=None, client_alpn=None, server_alpn=None):
    ticket = None
    tickets = None
    if cfg.get("psk"):
        ticket = Pv.ticket(tls, tls.CipherSuite(cfg.get("ticket_suite", 0x1301)), early=cfg.get("early", False))
        tickets = {ticket.ticket: ticket}
    client = tm.make_client(tls, Pv, ticket=ticket, client_cert=cfg.get("client_cert", False), cipher_suites=client_suites, alpn=client_alpn, want_tickets=cfg.get("issue", False))
    server = tm.make_server(tls, Pv, tickets=tickets, request_client_cert=cfg.get("client_cert", False), cipher_suites=server_suites, alpn=server_alpn, issue_tickets=cfg.get("issue", False))
    return client, server


def alter(label, cfg, shard, nshards, all_values=True):
    def run():
        tm.path_reset()
        tls = _tls()
        B = sx.BufferClass()
        Pv = tm.provider()
        suites = [tls.CipherSuite(cfg.get("ticket_suite", 0x1301))] if cfg.get("psk") else None  # so that the ticket is usable
        client, server = _endpoints(tls, Pv, cfg, client_suites=suites, server_suites=suites)
        hit = []

        def tamper(from_client, msg):
            lab = ("C:" if from_client else "S:") + TYPE_NAMES.get(tm.msg_type(msg), "?")
            if lab != label or hit:
                return msg
            n = sx._len(msg)
            lo, hi = n * shard // nshards, n * (shard + 1) // nshards - 1
            hit.append(n)
            return _alter_bytes(msg, lo, hi, all_values)

        dead = _pump(tls, B, client, server, tamper)
        if cfg.get("psk") and label != "C:CH":
            sx.check(server.session_resumed, "configuration error: the PSK was not accepted in the unaltered prefix")
        assert hit, "message %s never sent in configuration %r" % (label, cfg)
        recv, done_state, who = (server, tls.State.SERVER_POST_HANDSHAKE, "server") if label.startswith("C:") else (client, tls.State.CLIENT_POST_HANDSHAKE, "client")
        sx.check(recv.state != done_state, "%s completed the handshake although one byte of the %s it received was altered" % (who, label))
        if label == "C:CH" and cfg.get("psk"):
            sx.check(not server.keylog.has(tls.Direction.DECRYPT, tls.Epoch.ZERO_RTT) and not server.session_resumed, "server accepted the PSK (released 0-RTT keys / resumed) from an altered ClientHello")
        if label.startswith("S:"):
            sx.check(not client.keylog.has(tls.Direction.ENCRYPT, tls.Epoch.ONE_RTT), "client released 1-RTT send keys after an altered %s" % label)
        else:
            sx.check(not server.keylog.has(tls.Direction.DECRYPT, tls.Epoch.ONE_RTT), "server released 1-RTT receive keys after an altered %s" % label)

    return run


# ------------------------------------------------------------------ agreement
SUITES = [0x1301, 0x1302, 0x1303]
ALPN_CLIENT = [None, ["a"], ["a", "b"], ["b", "a"]]
ALPN_SERVER = [None, ["a"], ["b", "a"], ["c"]]


def _suite_list(tls, name, maxlen):
    n = sx.Choice(name + ".n", maxlen) + 1
    out = []
    for i in range(n):
        k = sx.Choice("%s.%d" % (name, i), len(SUITES))
        out.append(tls.CipherSuite(SUITES[k]))
    return out


def agree(ci, si, cfg):
    def run():
        tm.path_reset()
        tls = _tls()
        B = sx.BufferClass()
        Pv = tm.provider()
        cs_c = _suite_list(tls, "client_suites", 2)
        cs_s = _suite_list(tls, "server_suites", 2)
        calpn, salpn = ALPN_CLIENT[ci], ALPN_SERVER[si]
        client, server = _endpoints(tls, Pv, cfg, client_suites=cs_c, server_suites=cs_s, client_alpn=calpn, server_alpn=salpn)
        dead = _pump(tls, B, client, server, lambda fc, m: m)
        cdone = client.state == tls.State.CLIENT_POST_HANDSHAKE
        sdone = server.state == tls.State.SERVER_POST_HANDSHAKE
        common_suite = any(c in cs_s for c in cs_c)
        common_alpn = salpn is None or (calpn is not None and any(a in salpn for a in calpn))
        desc = "client suites %s alpn %r / server suites %s alpn %r / %s" % ([hex(c) for c in cs_c], calpn, [hex(c) for c in cs_s], salpn, cfg)
        if not (common_suite and common_alpn):
            sx.check(not cdone and not sdone, "handshake completed without a common %s: %s" % ("cipher suite" if not common_suite else "ALPN protocol", desc))
            return
        sx.check(cdone and sdone, "honest handshake with common options did not complete (client %s/%r, server %s/%r): %s" % (client.state.name, dead["c"], server.state.name, dead["s"], desc))
        if not (cdone and sdone):
            return
        D, Ep = tls.Direction, tls.Epoch
        for ep in (Ep.HANDSHAKE, Ep.ONE_RTT):
            for dc, ds in ((D.ENCRYPT, D.DECRYPT), (D.DECRYPT, D.ENCRYPT)):
                a, b = client.keylog.secret(dc, ep), server.keylog.secret(ds, ep)
                sx.check(a is not None and b is not None, "missing %s key: %s" % (ep.name, desc))
                sx.check_bytes_eq(a, b, "client %s and server %s %s secrets differ: %s" % (dc.name, ds.name, ep.name, desc))
        sx.check(client.key_schedule.cipher_suite == server.key_schedule.cipher_suite and client.key_schedule.cipher_suite in cs_c and client.key_schedule.cipher_suite in cs_s, "cipher suites differ or were not offered: %s" % desc)
        for c in client.keylog.calls + server.keylog.calls:
            if c[1] != Ep.ZERO_RTT:
                sx.check(c[2] == client.key_schedule.cipher_suite, "traffic key installed for another cipher suite: %s" % desc)
        sx.check(client.alpn_negotiated == server.alpn_negotiated, "ALPN differs (client %r, server %r): %s" % (client.alpn_negotiated, server.alpn_negotiated, desc))
        if salpn is not None:
            sx.check(client.alpn_negotiated in salpn and client.alpn_negotiated in calpn, "negotiated ALPN %r not offered by both: %s" % (client.alpn_negotiated, desc))
        sx.check(client.session_resumed == server.session_resumed, "resumption status differs (client %r, server %r): %s" % (client.session_resumed, server.session_resumed, desc))
        if cfg.get("psk"):
            expect = client.key_schedule.cipher_suite == cfg.get("ticket_suite", 0x1301)
            sx.check(server.session_resumed == expect, "resumption %s although the ticket's cipher suite %s the negotiated one: %s" % ("used" if server.session_resumed else "not used", "is" if expect else "is not", desc))
        if cfg.get("issue"):
            sx.check(len(client.tickets) == len(server.issued), "tickets issued %d, received %d" % (len(server.issued), len(client.tickets)))
            for a, b in zip(client.tickets, server.issued):
                sx.check_bytes_eq(a.resumption_secret, b.resumption_secret, "resumption secrets of the issued ticket differ: %s" % desc)
                sx.check(a.cipher_suite == b.cipher_suite, "ticket cipher suites differ")

    return run


# ------------------------------------------------------------------ QUIC layer: transport parameters authenticate IDs and version
def tp(role, focus):
    """focus: which authenticated field is symbolic (expected value, received value, presence); the others are authentic"""

    def run():
        from aioquic.quic import packet as pk
        from aioquic.quic.configuration import QuicConfiguration
        from aioquic.quic.connection import QuicConnection, QuicConnectionError

        is_client = role == "client"
        cfg = QuicConfiguration(is_client=is_client)
        if not is_client:
            cfg.certificate = cfg.private_key = object()  # never used: no handshake is run
        conn = QuicConnection(configuration=cfg, **({} if is_client else {"original_destination_connection_id": bytes(8)}))
        B = sx.BufferClass()

        def field(name, concrete, optional_expected=False):
            """(expected, sent)"""
            if focus != name:
                return concrete, concrete
            exp = sx.Bytes("expected." + name, 3)
            if optional_expected and not sx.Bool("retry_happened"):
                exp = None
            sent = sx.Bytes("sent." + name, 3) if sx.Bool(name + "_present") else None
            return exp, sent

        exp_iscid, iscid = field("iscid", b"\x11\x12")
        conn._remote_initial_source_connection_id = exp_iscid
        exp_odcid = exp_rscid = odcid = rscid = None
        if is_client:
            exp_odcid, odcid = field("odcid", b"\x21\x22\x23")
            exp_rscid, rscid = field("rscid", None, optional_expected=True)
            conn._original_destination_connection_id = exp_odcid
            conn._retry_source_connection_id = exp_rscid
        elif focus in ("odcid", "rscid"):
            sent = sx.Bytes("sent." + focus, 3) if sx.Bool(focus + "_present") else None
            odcid, rscid = (sent, None) if focus == "odcid" else (None, sent)
        versions = [pk.QuicProtocolVersion.VERSION_1, pk.QuicProtocolVersion.VERSION_2]
        in_use = int(versions[sx.Choice("version_in_use", 2)])
        conn._crypto_packet_version = in_use
        vi = None
        if focus == "version":
            if sx.Bool("version_information_present"):
                chosen = sx.Int("chosen_version", 0, 0xFFFFFFFF, size_like=False)
                avail = [sx.Int("available%d" % i, 0, 0xFFFFFFFF, size_like=False) for i in range(sx.Choice("n_available", 3))]
                vi = pk.QuicVersionInformation(chosen_version=chosen, available_versions=avail)
        else:
            vi = pk.QuicVersionInformation(chosen_version=in_use, available_versions=[in_use])
        params = pk.QuicTransportParameters(initial_source_connection_id=iscid, original_destination_connection_id=odcid, retry_source_connection_id=rscid, version_information=vi, active_connection_id_limit=2)
        buf = B(capacity=256)
        pk.push_quic_transport_parameters(buf, params)
        err = None
        try:
            conn._parse_transport_parameters(buf.data)
        except QuicConnectionError as exc:
            err = exc

        def same(a, b):
            if a is None or b is None:
                return a is None and b is None
            return bool(a == b)

        ok = same(iscid, exp_iscid)
        why = "initial_source_connection_id"
        if ok and is_client:
            ok = same(odcid, exp_odcid)
            why = "original_destination_connection_id"
            if ok:
                ok = same(rscid, exp_rscid)
                why = "retry_source_connection_id"
        if ok and not is_client:
            ok = odcid is None and rscid is None
            why = "server-only parameters (sent by a client)"
        if ok and vi is not None:
            why = "version_information"
            if vi.chosen_version == 0 or any(bool(a == 0) for a in vi.available_versions):
                ok = False
            elif vi.chosen_version != in_use:
                ok = False
            elif not is_client and not any(bool(vi.chosen_version == a) for a in vi.available_versions):
                ok = False
        if ok:
            sx.check(err is None, "%s: authentic transport parameters refused: %r" % (role, err))
        else:
            sx.check(err is not None, "%s accepted transport parameters whose %s does not match the connection IDs / version in use" % (role, why))

    return run


def tp_shims():
    from .. import connmodel as cm

    return cm.conn_shims()


ALTER_FULL = ["C:CH", "S:SH", "S:EE", "S:CR", "S:CERT", "S:CV", "S:FIN", "C:CERT", "C:CV", "C:FIN"]
ALTER_PSK = ["C:CH", "S:SH", "S:EE", "S:FIN", "C:FIN"]


def obligations(tier):
    T = tier == "thorough"
    obs = []
    for name, tag in ((tm.NAME, "dns"), (tm.IPNAME, "ip")):
        for psk in ("none", "offered") if tag == "dns" else ("none",):
            obs.append(Ob("C03.auth.%s.psk_%s" % (tag, psk), auth(name, psk), shims, ENCODED, bounds="adversary flight: every sequence of <= 4 messages over EncryptedExtensions, Certificate(valid|wrong name|untrusted|expired), CertificateVerify(signed by any of those keys|garbage), Finished; configured server name %r; PSK %s" % (name, psk), setup=tm.ideal_crypto, stubs=tm.STUBS, budget_s=900 if T else 420, max_decisions=4000))
    cfgs = [("full", {"client_cert": True}, ALTER_FULL), ("psk", {"psk": True, "early": True}, ALTER_PSK)]
    if T:
        cfgs.append(("plain", {}, ["C:CH", "S:SH", "S:EE", "S:CERT", "S:CV", "S:FIN", "C:FIN"]))
        cfgs.append(("psk384", {"psk": True, "ticket_suite": 0x1302}, ALTER_PSK))
    for cfg_name, cfg, labels in cfgs:
        for lab in labels:
            ns = {"C:CH": 16 if T else 8, "S:SH": 4, "S:CERT": 2, "C:CERT": 2}.get(lab, 1)
            for sh in range(ns):
                obs.append(Ob("C03.alter.%s.%s%s" % (cfg_name, lab.replace(":", "_").lower(), (".%d" % sh) if ns > 1 else ""), alter(lab, cfg, sh, ns, all_values=True), shims, ENCODED, bounds="one byte of %s replaced: position symbolic over shard %d/%d of the message, new value %s; configuration %s" % (lab, sh + 1, ns, "symbolic over the 255 other values", cfg_name), setup=tm.ideal_crypto, stubs=tm.STUBS, budget_s=1500 if T else 560, max_decisions=6000))
    for role, focus in [(r, f) for r in ("client", "server") for f in ("iscid", "odcid", "rscid", "version")]:
        obs.append(Ob("C03.tp.%s.%s" % (role, focus), tp(role, focus), tp_shims, ["aioquic.quic.connection.QuicConnection._parse_transport_parameters", "aioquic.quic.packet.pull_quic_transport_parameters", "aioquic.quic.packet.push_quic_transport_parameters"], bounds="one authenticated field symbolic at a time (the others authentic): expected and received connection ID = symbolic strings of <= 3 bytes, received ID present or absent, retry happened or not; version_information absent or with symbolic 32-bit chosen version and <= 2 symbolic available versions; version in use v1 or v2", outside="how the expected IDs are recorded from packet headers (C05/C06)", budget_s=420))
    for cfg_name, cfg in (("fresh", {"issue": True}), ("psk", {"psk": True}), ("psk384", {"psk": True, "ticket_suite": 0x1302}), ("clientcert", {"client_cert": True})):
        for ci in range(len(ALPN_CLIENT)):
            for si in range(len(ALPN_SERVER)):
                if cfg_name != "fresh" and (ci, si) not in ((0, 0), (2, 2)):
                    continue
                obs.append(Ob("C03.agree.%s.alpn%d%d" % (cfg_name, ci, si), agree(ci, si, cfg), shims, ENCODED, bounds="cipher-suite lists: every list of 1-2 suites out of the 3 supported on each side (solver-chosen); ALPN client %r server %r; %s" % (ALPN_CLIENT[ci], ALPN_SERVER[si], cfg_name), setup=tm.ideal_crypto, stubs=tm.STUBS, budget_s=900 if T else 420, max_decisions=4000))
    return obs
