"""C13 -- datagram emission respects size, padding and anti-amplification rules."""
from __future__ import annotations

from .. import connmodel as cm
from .. import symx as sx
from ..runner import Ob
from ..twinbuf import TwinBuffer
from . import c05

ASSUMPTIONS = ["packet protection is transparent (header || payload || 16 tag bytes), so datagram sizes are those of the real builder"]


def shims():
    import aioquic.quic.packet_builder as pb

    return {pb: ["len", "bytes", ("Buffer", TwinBuffer)]}


def builder_ob(nops, prefix=(), sym_mds=True):
    """every operation sequence on the real QuicPacketBuilder"""

    def run():
        import aioquic.quic.packet_builder as pb
        from aioquic.quic.packet import QuicFrameType, QuicPacketType

        is_client = sx.Bool("is_client")
        mds = sx.Int("max_datagram_size", 1200, 1500) if sym_mds else [1200, 1280, 1500][sx.Choice("max_datagram_size_idx", 3)]
        b = pb.QuicPacketBuilder(host_cid=bytes(8), peer_cid=bytes(8), version=1, is_client=is_client, max_datagram_size=mds, packet_number=sx.Int("pn", 0, 1000), peer_token=b"")
        if sx.Bool("has_flight_limit"):
            b.max_flight_bytes = sx.Int("max_flight_bytes", 0, 20000)
        if not is_client and sx.Bool("has_total_limit"):  # only a server has unvalidated peer addresses
            b.max_total_bytes = sx.Int("max_total_bytes", 0, 20000)
        crypto = cm.FakeCryptoPair(valid=True)
        packet_open = False
        fresh_packet = False
        for j in range(nops):
            op = prefix[j] if j < len(prefix) else ["initial", "handshake", "one_rtt", "ack", "ping", "crypto"][sx.Choice("op%d" % j, 6)]
            try:
                if op in ("initial", "handshake", "one_rtt"):
                    b.start_packet({"initial": QuicPacketType.INITIAL, "handshake": QuicPacketType.HANDSHAKE, "one_rtt": QuicPacketType.ONE_RTT}[op], crypto)
                    packet_open = True
                    fresh_packet = True
                    continue
                elif not packet_open:
                    continue
                elif op == "ack":
                    if not fresh_packet:
                        continue  # the connection writes the ACK frame first in a packet
                    buf = b.start_frame(QuicFrameType.ACK, capacity=20)
                    buf.push_bytes(bytes(19))
                elif op == "ping":
                    b.start_frame(QuicFrameType.PING, capacity=1)
                else:
                    n = sx.Int("crypto_len%d" % j, 1, 1500) if sym_mds else [1, 100, 1100, 1133][sx.Choice("crypto_len_idx%d" % j, 4)]
                    space = b.remaining_flight_space
                    sx.assume(n + 8 <= space)  # the connection sizes its frames from remaining_flight_space
                    buf = b.start_frame(QuicFrameType.CRYPTO, capacity=n + 8)
                    buf.push_bytes(sx.BytesOf(sx.Fn("Z"), 0, n + 7))
                fresh_packet = False
            except pb.QuicPacketBuilderStop:
                break
        datagrams, packets = b.flush()
        total = 0
        for d in datagrams:
            ln = sx.length_of(d)
            total = total + ln
            sx.check(ln <= mds, "a datagram is larger than the configured maximum datagram size")
        if b.max_total_bytes is not None:
            sx.check(total <= b.max_total_bytes, "total bytes exceed the anti-amplification budget given to the builder")
        mandatory_padding = any(pkt.packet_type == QuicPacketType.INITIAL and (is_client or sx.truth(pkt.is_ack_eliciting)) for pkt in packets)
        if b.max_flight_bytes is not None and not mandatory_padding:
            flight = 0
            for pkt in packets:
                flight = flight + sx.ite(pkt.in_flight, pkt.sent_bytes, 0) if not isinstance(pkt.in_flight, bool) else (flight + (pkt.sent_bytes if pkt.in_flight else 0))
            sx.check(flight <= sx.sym_max(b.max_flight_bytes, 0) if sx.E.mode == "sym" else flight <= max(b.max_flight_bytes, 0), "in-flight bytes exceed the congestion budget given to the builder")
        # padding rule: which datagram holds which packet
        pos = 0
        di = 0
        sizes = [sx.length_of(d) for d in datagrams]
        offs = 0
        for pkt in packets:
            while di < len(sizes) and sx.truth(offs + pkt.sent_bytes > sizes[di]) and sx.truth(offs >= sizes[di] - 0):
                di += 1
                offs = 0
            if di >= len(sizes):
                break
            needs = pkt.packet_type == QuicPacketType.INITIAL and (is_client or pkt.is_ack_eliciting)
            if needs:
                sx.check(sizes[di] >= 1200, "a datagram carrying a client Initial / ack-eliciting server Initial is shorter than 1200 bytes")
            offs = offs + pkt.sent_bytes
            if pkt.packet_type == QuicPacketType.ONE_RTT:
                di += 1
                offs = 0
        sx.reached()

    return run


def amp_ob():
    """a server that has received the client's first flight on a not yet validated address: what it
    sends stays within three times what it received, and is accounted in full"""
    name = "c13_server_first_flight"

    def build():
        client, server = cm.make_pair(handshake=False)
        client.connect(cm.ADDR_S, now=0.0)
        cm.transfer(client, server, 0.1)
        return cm.symbolize(server)

    def prep():
        c05._quiet()
        cm.prepare(name, build)

    def run():
        c05._quiet()
        if sx.E.mode == "replay":
            client, server = cm.make_pair(handshake=False)
            client.connect(cm.ADDR_S, now=0.0)
            cm.transfer(client, server, 0.1)
            conn = server
        else:
            conn = cm.clone(cm.prepare(name, build))
        # the size of the server's Handshake flight depends on its certificate chain: make it arbitrary
        from aioquic import tls
        from aioquic.quic.stream import QuicStreamSender

        hs = conn._crypto_streams[tls.Epoch.HANDSHAKE]
        hs.sender = QuicStreamSender(stream_id=None, writable=True)
        hs.sender.write(sx.BytesOf(sx.Fn("flight"), 0, [0, 40, 300, 1100, 2500, 4000][sx.Choice("handshake_flight_len_idx", 6)]))
        path = conn._network_paths[0]
        sx.check(not path.is_validated, "the client's address counts as validated before any Handshake packet was received")
        received = sx.Int("bytes_received", 1200, 6000)
        sent = sx.Int("bytes_sent", 0, 18000)
        sx.assume(sent <= 3 * received)
        path.bytes_received = received
        path.bytes_sent = sent
        conn._loss._cc.congestion_window = sx.Int("cwnd", 2400, 20000)
        t = 0.2
        total = 0
        for rnd in range(2):
            before = path.bytes_sent
            out = conn.datagrams_to_send(now=t)
            size = 0
            for data, addr in out:
                size = size + sx.length_of(data)
            sx.check(path.bytes_sent == before + size, "bytes sent to an unvalidated address are not accounted in full")
            total = total + size
            sx.check(sent + total <= 3 * received, "more than three times the received bytes sent to an unvalidated address")
            tt = conn.get_timer()
            if tt is None:
                break
            t = tt
            conn.handle_timer(now=t)
        sx.reached()

    return prep, run


def obligations(tier):
    T = tier == "thorough"
    P = "aioquic.quic.packet_builder.QuicPacketBuilder."
    obs = []
    n = 4 if T else 3
    for first in ("initial", "handshake", "one_rtt"):
        for second in ("initial", "handshake", "one_rtt", "ack", "ping", "crypto"):
            obs.append(Ob("C13.builder.%s-%s" % (first, second), builder_ob(n, (first, second), sym_mds=T), shims, [P + "start_packet", P + "start_frame", P + "_end_packet", P + "_flush_current_datagram", P + "flush"], bounds="role, max_datagram_size " + ("symbolic in [1200,1500]" if T else "in {1200,1280,1500}") + ", optional flight and total byte budgets in [0,20000]; operations %s, %s and %d more out of start_packet(Initial/Handshake/1-RTT), ACK frame, PING frame, CRYPTO frame of any size that fits (quick tier: sizes 1/100/1100/1133)" % (first, second, n - 2), budget_s=2400 if T else 450, max_decisions=1500, stubs=["CryptoPair -> transparent"]))
    prep, run = amp_ob()
    Q = "aioquic.quic.connection.QuicConnection."
    obs.append(Ob("C13.amplification.server", run, cm.conn_shims, [Q + "datagrams_to_send", Q + "_write_handshake", Q + "_write_application", P + "start_packet", P + "_flush_current_datagram"], bounds="server after the client's first flight, Handshake flight of 0/40/300/1100/2500/4000 bytes; bytes received in [1200,6000], bytes already sent anywhere up to the limit, congestion window in [2400,20000]; a transmit, the timer, another transmit", prepare=prep, budget_s=900 if T else 450, max_decisions=1500, stubs=["CryptoPair -> transparent", "tls.Context -> stub (the server flight is the real one produced before)"]))
    return obs
