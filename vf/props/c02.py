"""C02 -- only authentic packets are accepted; altered packets change nothing (relative to ideal ciphers)."""
from __future__ import annotations

from .. import symx as sx
from ..runner import Ob

ASSUMPTIONS = ["AES/ChaCha20/GHASH/Poly1305/HKDF are ideal (OpenSSL is outside the encoding): a packet whose protection does not verify makes the decryptor raise CryptoError"]


def shims_packet():
    import aioquic.quic.packet as pk

    return {pk: []}


def pn_decode(bits):
    """RFC 9000 appendix A.3 as a declarative specification"""

    def run():
        import aioquic.quic.packet as pk

        W = 1 << bits
        H = W // 2
        full = sx.Int("full", 0, (1 << 62) - 1)
        expected = sx.Int("expected", 0, (1 << 62) - 1)
        truncated = full % W
        got = pk.decode_packet_number(truncated, bits, expected)
        sx.check(got % W == truncated, "decoded number is not congruent to the truncated number")
        sx.check(sx.And(got >= 0, got < (1 << 62) + W), "decoded number out of range")
        # closest candidate to the expected number (ties / domain edges as in the RFC's sample algorithm)
        in_window = sx.And(got > expected - H, got <= expected + H)
        low_edge = sx.And(got > expected + H, got < W)  # cannot go one window lower
        high_edge = sx.And(got <= expected - H, got >= (1 << 62) - W)  # cannot go one window higher
        sx.check(sx.Or(in_window, low_edge, high_edge), "decoded number is not the candidate closest to the expected number")
        # the sender's number is recovered whenever it is within half a window of the expectation
        sx.check(sx.Implies(sx.And(full > expected - H, full <= expected + H), got == full), "a packet number within half a window of the expected one is not recovered")

    return run


def forged_then_genuine():
    """a server receives an altered copy of the client's first Initial (any single field altered after
    protection => authentication fails), then the genuine one: the forgery changes nothing and the
    genuine packet is still accepted"""
    from .. import connmodel as cm
    from . import c05

    def run():
        import os

        from aioquic import tls
        from aioquic.quic.configuration import QuicConfiguration
        from aioquic.quic.connection import QuicConnection, QuicConnectionState

        c05._quiet()
        if sx.E.mode == "replay":
            # real endpoints, real keys: alter the protected first Initial as the model says
            client, server = cm.make_pair(handshake=False)
            client.connect(cm.ADDR_S, now=0.0)
            dg = client.datagrams_to_send(now=0.0)[0][0]
            forged = bytearray(dg)
            if sx.Bool("alter_dcid"):
                fd = sx.Bytes("forged_dcid", 8, 8)
                if bytes(fd) == bytes(forged[6:14]):
                    raise sx.Infeasible()
                forged[6:14] = fd
            else:
                forged[100] ^= 1
            server.receive_datagram(bytes(forged), cm.ADDR_C, now=0.0)
            sx.check(server.next_event() is None, "a packet that failed authentication produced an event")
            sx.check(server._state == QuicConnectionState.FIRSTFLIGHT and server._close_event is None, "a packet that failed authentication advanced or closed the connection")
            server.receive_datagram(dg, cm.ADDR_C, now=0.1)
            sx.check(server._state == QuicConnectionState.CONNECTED, "the genuine packet is no longer accepted after a forged one")
            return
        sx.register_keys([1, 0x6B3343CF, 0])
        sx.register_keys(range(0x40))
        cm.DET.n = 0  # the server's own "random" IDs must not differ between re-executions of a path
        cfg = QuicConfiguration(is_client=False)
        cfg.load_cert_chain(os.path.join(cm.REPO, "tests", "ssl_cert.pem"), os.path.join(cm.REPO, "tests", "ssl_key.pem"))
        conn = QuicConnection(configuration=cfg, original_destination_connection_id=bytes(8))
        genuine_dcid = bytes(range(1, 9))
        cm.FakeCryptoPair.sender_initial_cid = genuine_dcid
        scid = bytes(range(9, 17))

        def initial(dcid, payload):
            hdr = bytes([0xC1]) + (1).to_bytes(4, "big") + bytes([8]) + dcid + bytes([8]) + scid + b"\x00"
            body = b"\x00\x00" + payload + bytes(16)  # packet number 0, payload, tag
            ln = sx.length_of(body)
            return hdr + (0x4000 | ln).to_bytes(2, "big") + body

        crypto_frame = bytes([0x06, 0x00, 0x04]) + b"hell"
        # the forgery: the destination CID bytes may be altered (that is the part the keys depend on);
        # alterations anywhere else are modelled by the authentication failure itself
        alter_cid = sx.Bool("alter_dcid")
        forged_dcid = sx.Bytes("forged_dcid", 8, 8) if alter_cid else genuine_dcid
        if not alter_cid:
            cm.CryptoErrorChoice.fail_next = True
        conn.receive_datagram(initial(forged_dcid, crypto_frame), cm.ADDR_C, now=0.0)
        cm.CryptoErrorChoice.fail_next = False
        if alter_cid and sx.truth(sx.SymBool(forged_dcid.eq_term(genuine_dcid))):
            sx.reached()
            return  # not an alteration
        sx.check(conn.next_event() is None, "a packet that failed authentication produced an event")
        sx.check(conn._state == QuicConnectionState.FIRSTFLIGHT and conn._close_event is None, "a packet that failed authentication advanced or closed the connection")
        conn.receive_datagram(initial(genuine_dcid, crypto_frame), cm.ADDR_C, now=0.1)
        sx.check(conn._state == QuicConnectionState.CONNECTED, "the genuine packet is no longer accepted after a forged one")
        sx.check(conn.tls.calls >= 1, "the genuine packet's handshake data was not processed")

    return run


# ---------------------------------------------------------------- key schedule glue (ideal HKDF)
class Term(tuple):
    """ideal HKDF output: equal iff derived the same way"""

    def __len__(self):
        return self[-1]


def _hkdf_expand_label(algorithm, secret, label, hash_value, length):
    return Term(("expand", type(algorithm).__name__, secret, bytes(label), bytes(hash_value), length))


def _hkdf_extract(algorithm, salt, key_material):
    return Term(("extract", type(algorithm).__name__, bytes(salt), key_material if isinstance(key_material, Term) else bytes(key_material), algorithm.digest_size))


class RecAEAD:
    log = []

    def __init__(self, cipher_name, key, iv):
        self.args = (bytes(cipher_name), key, iv)
        RecAEAD.log.append(self.args)

    def encrypt(self, data, associated, pn):
        return ("sealed", self.args, data, associated, pn)

    def decrypt(self, data, associated, pn):
        return ("opened", self.args, data, associated, pn)


class RecHP:
    next_remove = None

    def __init__(self, cipher_name, key):
        self.args = (bytes(cipher_name), key)

    def apply(self, header, payload):
        return ("protected", self.args, header, payload)

    def remove(self, packet, offset):
        return RecHP.next_remove


def glue_shims():
    import aioquic.quic.crypto as qc

    return {qc: [("AEAD", RecAEAD), ("HeaderProtection", RecHP), ("hkdf_expand_label", _hkdf_expand_label), ("hkdf_extract", _hkdf_extract)]}


class glue_env:
    """the same ideal primitives in replay mode (they are environment, like the ciphers themselves)"""

    def __enter__(self):
        self.cm = sx.shimmed(glue_shims())
        self.cm.__enter__()
        return self

    def __exit__(self, *a):
        return self.cm.__exit__(*a)


# RFC 9001 s5.1/5.2/6, RFC 9369 s3.3: (key label, iv label, hp label, ku label, initial salt)
RFC = {
    1: (b"quic key", b"quic iv", b"quic hp", b"quic ku", bytes.fromhex("38762cf7f55934b34d179ae6a4c80cadccbb7f0a")),
    0x6B3343CF: (b"quicv2 key", b"quicv2 iv", b"quicv2 hp", b"quicv2 ku", bytes.fromhex("0dede3def700a6db819381be6e269dcbf9bd2ed9")),
}
SUITES = {0x1301: ("SHA256", 16, b"aes-128-ecb", b"aes-128-gcm"), 0x1302: ("SHA384", 32, b"aes-256-ecb", b"aes-256-gcm"), 0x1303: ("SHA256", 32, b"chacha20", b"chacha20-poly1305")}


def key_schedule():
    def run():
        import aioquic.quic.crypto as qc
        from aioquic.tls import CipherSuite

        version = [1, 0x6B3343CF][sx.Choice("version", 2)]
        suite = [0x1301, 0x1302, 0x1303][sx.Choice("suite", 3)]
        klabel, ivlabel, hplabel, kulabel, salt = RFC[version]
        hname, ksize, hp_cipher, aead_cipher = SUITES[suite]
        nupdates = sx.Choice("updates", 4)
        pair = qc.CryptoPair()
        s_recv, s_send = Term(("secret", "recv")), Term(("secret", "send"))
        pair.recv.setup(cipher_suite=CipherSuite(suite), secret=s_recv, version=version)
        pair.send.setup(cipher_suite=CipherSuite(suite), secret=s_send, version=version)

        def expect(ctx, secret, what):
            key = Term(("expand", hname, secret, klabel, b"", ksize))
            iv = Term(("expand", hname, secret, ivlabel, b"", 12))
            sx.check(ctx.aead.args == (aead_cipher, key, iv), what + ": AEAD cipher/key/iv differ from RFC 9001 s5.1 / RFC 9369 s3.3.1")
            return secret

        expect(pair.recv, s_recv, "recv")
        expect(pair.send, s_send, "send")
        hp0 = Term(("expand", hname, s_send, hplabel, b"", ksize))
        sx.check(pair.send.hp.args == (hp_cipher, hp0), "header protection cipher/key differ from the RFC")
        digest = {"SHA256": 32, "SHA384": 48}[hname]
        cur_r, cur_s = s_recv, s_send
        for g in range(nupdates):
            local = sx.Bool("local%d" % g)
            if local:
                pair.update_key()
                sealed = pair.encrypt_packet(b"\x40hdr", b"payload", 7)
            else:
                first = 0x40 | (((g + 1) % 2) << 2) | 1
                RecHP.next_remove = (bytes([first]) + b"hdr", 7)
                pair.decrypt_packet(b"x" * 40, 4, 7)
            cur_r = Term(("expand", hname, cur_r, kulabel, b"", digest))
            cur_s = Term(("expand", hname, cur_s, kulabel, b"", digest))
            expect(pair.recv, cur_r, "recv after %d key updates" % (g + 1))
            expect(pair.send, cur_s, "send after %d key updates" % (g + 1))
            sx.check(pair.key_phase == (g + 1) % 2, "key phase bit after %d key updates" % (g + 1))
            sx.check(pair.send.hp.args == (hp_cipher, hp0), "header protection key must not change on key update")
        sx.reached()

    return run


def initial_keys():
    def run():
        import aioquic.quic.crypto as qc

        version = [1, 0x6B3343CF][sx.Choice("version", 2)]
        is_client = sx.Bool("is_client")
        klabel, ivlabel, hplabel, kulabel, salt = RFC[version]
        cid = b"\x83\x94\xc8\xf0\x3e\x51\x57\x08"
        pair = qc.CryptoPair()
        pair.setup_initial(cid=cid, is_client=is_client, version=version)
        init = Term(("extract", "SHA256", salt, cid, 32))
        cs = Term(("expand", "SHA256", init, b"client in", b"", 32))
        ss = Term(("expand", "SHA256", init, b"server in", b"", 32))
        send, recv = (cs, ss) if is_client else (ss, cs)
        for ctx, sec, what in ((pair.send, send, "send"), (pair.recv, recv, "recv")):
            key = Term(("expand", "SHA256", sec, klabel, b"", 16))
            iv = Term(("expand", "SHA256", sec, ivlabel, b"", 12))
            sx.check(ctx.aead.args == (b"aes-128-gcm", key, iv), "Initial %s keys differ from RFC 9001 s5.2 / RFC 9369 s3.3.1" % what)
            sx.check(ctx.hp.args == (b"aes-128-ecb", Term(("expand", "SHA256", sec, hplabel, b"", 16))), "Initial %s header protection key differs from the RFC" % what)

    return run


def header_bits():
    """packet-number length and key-phase bit extracted on receive are those carried by the header"""

    def run():
        import aioquic.quic.crypto as qc
        from aioquic.quic.packet import decode_packet_number
        from aioquic.tls import CipherSuite

        pair = qc.CryptoPair()
        pair.recv.setup(cipher_suite=CipherSuite(0x1301), secret=Term(("secret", "recv")), version=1)
        pair.send.setup(cipher_suite=CipherSuite(0x1301), secret=Term(("secret", "send")), version=1)
        first = sx.Int("first", 0, 255)
        pn_trunc = sx.Int("pn", 0, (1 << 32) - 1)
        expected = sx.Int("expected", 0, (1 << 62) - 1)
        pnl = (first % 4) + 1
        sx.assume(pn_trunc < 256 ** 4)
        hdr = sx.Bytes("h", 0, 0)
        if sx.E.mode == "replay":
            plain_header = bytes([first]) + b"cidcidci" + bytes(4)
        else:
            plain_header = sx.SymBytes.from_items([first.e if hasattr(first, "e") else first] + list(b"cidcidci") + [0, 0, 0, 0])
        RecHP.next_remove = (plain_header, pn_trunc)
        k = sx.concretize(pnl)
        sx.assume(pn_trunc < 256 ** k)
        ph, payload, pn = pair.decrypt_packet(b"x" * 60, 9, expected)
        exp_pn = decode_packet_number(pn_trunc, 8 * k, expected)
        sx.check(pn == exp_pn, "packet number not expanded with the length carried in the header")
        sx.check(payload[4] == pn, "AEAD was not given the reconstructed packet number")
        long_hdr = sx.truth(first >= 128)
        phase_bit = sx.truth((first // 4) % 2 == 1)
        updated = pair.recv.key_phase == 1
        sx.check(updated == ((not long_hdr) and phase_bit), "key update triggered exactly by a differing key-phase bit of a short header")

    return run


# ------------------------------------------------------------------ C level (ll2smt)
def c_aead(fname):
    """functional obligations on the LLVM IR of AEAD_encrypt / AEAD_decrypt: what is handed to the
    (ideal) cipher is exactly what RFC 9001 s5.3 prescribes -- nonce = iv XOR packet number, the
    header as associated data, the whole payload, the trailing 16 bytes as tag -- and a failed
    tag verification never yields a plaintext"""

    def run():
        import time

        import z3

        from .. import cmodel as C
        from .. import ll2smt as L
        from ..ll2smt import Ptr, bv

        t0 = time.time()
        ex, paths, ctx = C.run_crypto_fn(fname)
        mod = ctx["mod"]
        T = L.TNamed(ctx["struct"])
        off_buf, off_key, off_iv, off_nonce = (mod.field_off(T, i)[0] for i in (3, 4, 5, 6))
        arr0 = ctx["self_arr0"]
        pn = ex.inputs["arg2_K"]
        dlen, alen = ex.inputs["arg0_len"], ex.inputs["arg1_len"]
        enc = fname.endswith("encrypt")
        viols, samples = [], []
        nchecks = 0

        def model_inputs(pc, extra):
            vals = {"_fn": fname}
            if ex.check(*(pc + extra)) == z3.sat:
                m = ex.solver.model()
                for n, t in ex.inputs.items():
                    vals[n] = m.eval(t, model_completion=True).as_long()
                vals["iv"] = [m.eval(z3.Select(arr0, bv(off_iv + k, 64)), model_completion=True).as_long() for k in range(12)]
            return vals

        def must(pc, cond, msg):
            nonlocal nchecks
            nchecks += 1
            r = ex.check(*(pc + [z3.Not(cond)]))
            if r == z3.unsat:
                return True
            if r != z3.sat:
                ex.inconclusive.append("solver unknown: " + msg)
                return True
            viols.append({"msg": "%s: %s" % (fname[1:], msg), "site": fname[1:], "inputs": model_inputs(pc, [z3.Not(cond)])})
            return False

        def at(ptr, name, off):
            return isinstance(ptr, Ptr) and ptr.obj is not None and ptr.obj.name == name and (ptr.off == bv(off, 64) if not z3.is_bv(off) else ptr.off == off)

        def struct_fail(msg):
            viols.append({"msg": "%s: %s" % (fname[1:], msg), "site": fname[1:], "inputs": {"_fn": fname}})

        for p in paths:
            # precondition: the header argument is shorter than 2^31 bytes (it is cast to the int
            # OpenSSL takes); callers pass packet headers of at most a datagram
            pc = list(p.cond) + [z3.ULE(alen, bv((1 << 31) - 1, 64))]
            calls = p.calls
            names = [c[0] for c in calls]
            ok_path = p.exc is None and not (isinstance(p.ret, Ptr) and p.ret.obj is None)
            inits = [c for c in calls if c[0] == "EVP_CipherInit_ex"]
            ivb = [c for c in calls if c[0] == "init_iv_bytes"]
            upd = [c for c in calls if c[0] == "EVP_CipherUpdate"]
            fin = [c for c in calls if c[0] == "EVP_CipherFinal_ex"]
            ctl = [c for c in calls if c[0] == "EVP_CIPHER_CTX_ctrl"]
            if len(inits) > 1 or len(upd) > 2 or len(fin) > 1:
                struct_fail("cipher driven more than once in one call: %s" % names)
                continue
            for c, bs in zip(inits, ivb):
                _, key, iv, e = c
                c1 = at(key, "self", off_key)
                c2 = at(iv, "self", off_nonce)
                if c1 is False or c2 is False:
                    struct_fail("cipher initialised with a key/nonce that is not the object's key[] / nonce[]")
                    continue
                must(pc, z3.And(c1, c2), "key / nonce pointers are not self->key / self->nonce")
                must(pc, e == (1 if enc else 0), "cipher direction flag")
                spec = []
                for k in range(12):
                    b = z3.Select(arr0, bv(off_iv + k, 64))
                    if k >= 4:
                        sh = 8 * (11 - k)
                        b = b ^ z3.Extract(sh + 7, sh, pn)
                    spec.append(b)
                must(pc, z3.And(*[x == y for x, y in zip(bs[1], spec)]), "nonce is not iv XOR the 62-bit packet number, left-padded (RFC 9001 s5.3)")
            if upd:
                _, out, inp, inl = upd[0]
                if out.obj is not None or at(inp, "arg1", 0) is False:
                    struct_fail("first update is not the associated-data pass over the header argument")
                else:
                    must(pc, z3.And(at(inp, "arg1", 0), z3.SignExt(32, inl) == alen), "associated data is not the whole header argument")
                if names.index("EVP_CipherUpdate") < (names.index("EVP_CipherInit_ex") if inits else 1 << 30):
                    struct_fail("data fed to the cipher before the nonce is set")
            if len(upd) == 2:
                _, out, inp, inl = upd[1]
                want = dlen if enc else dlen - 16
                if at(out, "self", off_buf) is False or at(inp, "arg0", 0) is False:
                    struct_fail("payload pass does not read the payload argument into self->buffer")
                else:
                    must(pc, z3.And(at(out, "self", off_buf), at(inp, "arg0", 0), z3.SignExt(32, inl) == want), "payload pass does not cover %s" % ("the whole plaintext" if enc else "the ciphertext without its 16-byte tag"))
            tags = [c for c in ctl if c[1] in (0x10, 0x11)]
            if not enc:
                # the expected tag must be set from the last 16 bytes of the input before verification
                if fin and not [c for c in tags if c[1] == 0x11]:
                    struct_fail("tag verification without setting the expected tag")
                for c in tags:
                    if c[1] == 0x11:
                        ptr = c[3]
                        if at(ptr, "arg0", 0) is False:
                            struct_fail("expected tag not taken from the payload argument")
                        else:
                            must(pc, z3.And(c[2] == 16, ptr.off == dlen - 16), "expected tag is not the last 16 bytes of the input")
                if ok_path:
                    if not fin or len(upd) != 2 or not inits:
                        struct_fail("a plaintext is returned without tag verification (calls: %s)" % names)
                    else:
                        must(pc, fin[0][1] != 0, "a plaintext is returned although tag verification failed")
            else:
                if ok_path:
                    if not fin or len(upd) != 2 or not inits or not [c for c in tags if c[1] == 0x10]:
                        struct_fail("a ciphertext is returned without running the cipher to completion and fetching the tag (calls: %s)" % names)
            if ok_path:
                for r in p.results:
                    if r[0] == "bytes":
                        if at(r[1], "self", off_buf) is False:
                            struct_fail("result not taken from self->buffer")
                        else:
                            must(pc, at(r[1], "self", off_buf), "result not taken from the start of self->buffer")
            if len(samples) < 3:
                samples.append({"function": fname[1:], "path_outcome": ("raises %s" % p.exc) if p.exc else "returns", "external_calls": names[:10]})
        return {"paths": len(paths), "paths_with_checks": len(paths), "queries": ex.queries, "solver_time": ex.solver_time, "violations": viols, "inconclusive": sorted(set(ex.inconclusive)), "samples": samples, "exhaustive": not ex.inconclusive, "functional_conditions_checked": nchecks}

    return run


def replay_c_aead(inputs):
    """differential replay on a plain build of the current _crypto.c: the compiled AEAD object against
    the `cryptography` AES-GCM reference with the RFC nonce, on the solver's packet number / iv / lengths"""
    from .. import cmodel as C

    g = inputs.get
    pn = g("arg2_K", 0)
    iv = bytes(g("iv", [0] * 12))
    n = max(0, min(g("arg0_len", 32), 1200))
    a = max(0, min(g("arg1_len", 9), 200))
    script = (
        "from aioquic._crypto import AEAD, CryptoError\n"
        "from cryptography.hazmat.primitives.ciphers.aead import AESGCM\n"
        "key = bytes(range(16)); iv = %r; pn = %d\n"
        "nonce = iv[:4] + bytes(x ^ y for x, y in zip(iv[4:], pn.to_bytes(8, 'big')))\n"
        "bad = []\n"
        "for n, a in ((%d, %d), (1, 0), (20, 9), (1200, 30)):\n"
        "    pt = bytes((7 * i + 1) & 255 for i in range(n)); ad = bytes((3 * i + 2) & 255 for i in range(a))\n"
        "    ref = AESGCM(key).encrypt(nonce, pt, ad)\n"
        "    o = AEAD(b'aes-128-gcm', key, iv)\n"
        "    try:\n"
        "        ct = o.encrypt(pt, ad, pn)\n"
        "    except CryptoError as e:\n"
        "        ct = e\n"
        "    if ct != ref: bad.append('encrypt(%%d,%%d) differs from AES-GCM under the RFC nonce' %% (n, a))\n"
        "    try:\n"
        "        back = o.decrypt(ref, ad, pn)\n"
        "    except CryptoError as e:\n"
        "        back = e\n"
        "    if back != pt: bad.append('decrypt of a genuine packet (%%d,%%d) fails or differs' %% (n, a))\n"
        "    for pos in sorted({0, len(ref) // 2, len(ref) - 16, len(ref) - 1}):\n"
        "        forged = bytearray(ref); forged[pos] ^= 1\n"
        "        try:\n"
        "            o.decrypt(bytes(forged), ad, pn); bad.append('forged packet accepted (byte %%d of %%d)' %% (pos, len(ref)))\n"
        "        except CryptoError:\n"
        "            pass\n"
        "    if a:\n"
        "        try:\n"
        "            o.decrypt(ref, bytes([ad[0] ^ 1]) + ad[1:], pn); bad.append('altered header accepted')\n"
        "        except CryptoError:\n"
        "            pass\n"
        "    try:\n"
        "        o.decrypt(ref, ad, pn ^ 1); bad.append('packet accepted under another packet number')\n"
        "    except CryptoError:\n"
        "        pass\n"
        "print(bad)\n"
        "assert not bad, bad\n"
    ) % (iv, pn, n, a)
    rc, out = C.run_plain(script)
    last = out.strip().splitlines()[-1] if out.strip() else ""
    return {"reproduced": rc not in (0, None), "msg": ("compiled AEAD vs reference: " + last[:300]) if rc else "", "why": out[-600:], "script": script}


def c_hp_apply():
    """HeaderProtection_apply on the LLVM IR: with mask = F(sample) an arbitrary (ideal) cipher output,
    the returned packet is header || payload with exactly the low 4 (long header) / 5 (short header)
    bits of byte 0 XORed with mask[0] and the pn_length packet-number bytes XORed with mask[1..];
    the sample is the 16 bytes starting 4 bytes after the start of the packet number (RFC 9001 s5.4.2)"""

    def run():
        import z3

        from .. import cmodel as C
        from ..ll2smt import Ptr, bv

        fname = "@HeaderProtection_apply"
        ex, paths, ctx = C.run_crypto_fn(fname)
        hl, pl = ex.inputs["arg0_len"], ex.inputs["arg1_len"]
        viols, samples, nchecks, returning = [], [], 0, 0

        def fail(pc, extra, msg):
            vals = {"_fn": fname}
            if ex.check(*(pc + extra)) == z3.sat:
                m = ex.solver.model()
                for n, t in ex.inputs.items():
                    vals[n] = m.eval(t, model_completion=True).as_long()
            viols.append({"msg": "HeaderProtection_apply: " + msg, "site": "HeaderProtection_apply", "inputs": vals})

        for p in paths:
            if p.exc is not None or not [r for r in p.results if r[0] == "bytes"]:
                continue
            returning += 1
            pc = list(p.cond)
            co = [c for c in p.calls if c[0] == "cipher_out"]
            upd = [c for c in p.calls if c[0] == "EVP_CipherUpdate"]
            ini = [c for c in p.calls if c[0] == "EVP_CipherInit_ex"]
            hobj, pobj = C.final_obj(p, "arg0"), C.final_obj(p, "arg1")
            if not co or hobj is None or pobj is None:
                fail(pc, [], "a protected packet is returned without computing a mask")
                continue
            mask = co[-1][1]
            H = lambda j: z3.Select(hobj.arr, j)
            P = lambda j: z3.Select(pobj.arr, j)
            b0 = H(bv(0, 64))
            pnl = z3.ZeroExt(56, b0 & 3) + 1
            pno = hl - pnl
            # where the sample is taken: payload + 4 - pn_length, 16 bytes (AES: cipher input; ChaCha20: counter||nonce)
            sp = ini[-1][2] if ini else upd[-1][2]
            if not (isinstance(sp, Ptr) and sp.obj is not None and sp.obj.name == "arg1"):
                fail(pc, [], "the mask is not computed from a sample of the payload argument")
                continue
            nchecks += 1
            cond = sp.off == bv(4, 64) - pnl
            if not ini:
                cond = z3.And(cond, upd[-1][3] == 16)
            r = ex.check(*(pc + [z3.Not(cond)]))
            if r != z3.unsat:
                (fail(pc, [z3.Not(cond)], "the sample is not the 16 bytes at packet-number offset + 4") if r == z3.sat else ex.inconclusive.append("solver unknown: sample position"))
            _, ptr, n, arr = [r for r in p.results if r[0] == "bytes"][-1]
            j = z3.BitVec("j!spec", 64)
            first = b0 ^ (z3.Select(mask, bv(0, 64)) & z3.If((b0 & 0x80) != 0, z3.BitVecVal(0x0F, 8), z3.BitVecVal(0x1F, 8)))
            mk = z3.Select(mask, j - pno + 1)
            spec = z3.If(j == 0, z3.If(pno == 0, first ^ mk, first), z3.If(z3.ULT(j, hl), z3.If(z3.UGE(j, pno), H(j) ^ mk, H(j)), P(j - hl)))
            got = z3.Select(arr, ptr.off + j)
            nchecks += 2
            r = ex.check(*(pc + [z3.Not(n == hl + pl)]))
            if r != z3.unsat:
                (fail(pc, [z3.Not(n == hl + pl)], "result length is not header + payload") if r == z3.sat else ex.inconclusive.append("solver unknown: length"))
            r = ex.check(*(pc + [z3.ULT(j, hl + pl), got != spec]))
            if r == z3.sat:
                jj = ex.solver.model().eval(j, model_completion=True).as_long()
                fail(pc, [z3.ULT(j, hl + pl), got != spec], "byte %d of the protected packet is not header||payload with the RFC 9001 s5.4.1 mask applied" % jj)
            elif r != z3.unsat:
                ex.inconclusive.append("solver unknown: byte equality")
            if len(samples) < 2:
                samples.append({"function": "HeaderProtection_apply", "path_outcome": "returns", "external_calls": [c[0] for c in p.calls][:8]})
        if not returning:
            ex.inconclusive.append("vacuous: no returning path")
        return {"paths": len(paths), "paths_with_checks": returning, "queries": ex.queries, "solver_time": ex.solver_time, "violations": viols, "inconclusive": sorted(set(ex.inconclusive)), "samples": samples, "exhaustive": not ex.inconclusive, "functional_conditions_checked": nchecks}

    return run


def replay_c_hp(inputs):
    """differential replay: compiled HeaderProtection (working tree build) against AES-ECB from the
    `cryptography` package with the RFC 9001 s5.4 arithmetic, on the solver's lengths / first byte"""
    from .. import cmodel as C

    g = inputs.get
    hl = max(1, min(g("arg0_len", 20), 1400))
    pl = max(20, min(g("arg1_len", 40), 1500 - hl))
    b0 = g("arg0_byte0", 0x43)
    script = (
        "from aioquic._crypto import HeaderProtection, CryptoError\n"
        "from cryptography.hazmat.primitives.ciphers import Cipher, algorithms, modes\n"
        "key = bytes(range(16)); bad = []\n"
        "for first in (%d, 0xc0, 0xc3, 0x40, 0x43, 0x41):\n"
        " for seed in range(8):\n"
        "  for hl in sorted({%d, 5, 23}):\n"
        "    pnl = (first & 3) + 1\n"
        "    if hl < pnl: continue\n"
        "    header = bytes([first]) + bytes((5 * i + 3) & 255 for i in range(hl - 1)); payload = bytes((11 * i + 7 + 37 * seed * (i + 1)) & 255 for i in range(%d))\n"
        "    sample = payload[4 - pnl:20 - pnl]\n"
        "    e = Cipher(algorithms.AES(key), modes.ECB()).encryptor(); mask = e.update(sample)\n"
        "    ref = bytearray(header + payload); ref[0] ^= mask[0] & (0x0f if first & 0x80 else 0x1f)\n"
        "    for i in range(pnl): ref[hl - pnl + i] ^= mask[1 + i]\n"
        "    hp = HeaderProtection(b'aes-128-ecb', key)\n"
        "    try:\n"
        "        out = hp.apply(header, payload)\n"
        "    except CryptoError as ex:\n"
        "        out = ex\n"
        "    if out != bytes(ref): bad.append('apply(first=%%#x, header_len=%%d) differs from RFC 9001 s5.4' %% (first, hl))\n"
        "    else:\n"
        "        back = hp.remove(out, hl - pnl)\n"
        "        if back[0] != header or back[1] != int.from_bytes(header[hl - pnl:], 'big'): bad.append('remove(apply()) does not give the header back')\n"
        "print(bad)\n"
        "assert not bad, bad\n"
    ) % (b0, hl, pl)
    rc, out = C.run_plain(script)
    last = out.strip().splitlines()[-1] if out.strip() else ""
    return {"reproduced": rc not in (0, None), "msg": ("compiled HeaderProtection vs reference: " + last[:300]) if rc else "", "why": out[-600:], "script": script}


def obligations(tier):
    obs = []
    for bits in (8, 16, 24, 32):
        obs.append(Ob("C02.pn.%d" % bits, pn_decode(bits), shims_packet, ["aioquic.quic.packet.decode_packet_number"], bounds="every full packet number and every expected number in [0, 2^62), %d-bit truncation" % bits, budget_s=600))
    Q = "aioquic.quic.crypto."
    obs.append(Ob("C02.glue.key_schedule", key_schedule(), glue_shims, [Q + "CryptoContext.setup", Q + "derive_key_iv_hp", Q + "next_key_phase", Q + "apply_key_phase", Q + "CryptoPair._update_key", Q + "CryptoPair.encrypt_packet", Q + "CryptoPair.decrypt_packet"], bounds="2 versions x 3 cipher suites x up to 3 key updates, each initiated locally or by the peer", stubs=["HKDF -> ideal (term algebra)", "AEAD/HeaderProtection -> recorders"], env=glue_env, budget_s=300))
    obs.append(Ob("C02.glue.initial_keys", initial_keys(), glue_shims, [Q + "CryptoPair.setup_initial", Q + "derive_key_iv_hp"], bounds="2 versions x 2 roles", stubs=["HKDF -> ideal"], env=glue_env, budget_s=120))
    obs.append(Ob("C02.glue.header_bits", header_bits(), glue_shims, [Q + "CryptoContext.decrypt_packet", "aioquic.quic.packet.decode_packet_number"], bounds="every first byte, truncated packet number and expected number", stubs=["HeaderProtection.remove -> returns the harness-chosen plain header"], env=glue_env, budget_s=300))
    from . import c05

    obs.append(Ob("C02.drop.server_first_flight", forged_then_genuine(), c05.hdr_shims, ["aioquic.quic.connection.QuicConnection.receive_datagram", "aioquic.quic.connection.QuicConnection._initialize"], bounds="first Initial with any alteration of its 8 destination-CID bytes, or any other alteration (authentication failure), followed by the genuine Initial", stubs=["CryptoPair -> transparent; Initial keys open only packets protected under the same destination CID", "tls.Context -> stub"], budget_s=300))
    obs.append(Ob("C02.c.HeaderProtection_apply", c_hp_apply(), kind="custom", replay_fn=replay_c_hp, encoded=["_crypto.c:HeaderProtection_apply, HeaderProtection_mask (LLVM IR, clang -O1)"], bounds="arbitrary object state (AES and ChaCha20 modes), header and payload arguments of any length and content accepted by the function's own checks, every byte position of the result (free index variable)", outside="the cipher (mask = arbitrary 5+ bytes: ideal); HeaderProtection_remove has memory-safety obligations only (C04) and is exercised by the differential replay", stubs=["EVP_* -> contract stubs recording their arguments"], budget_s=600))
    for fn in ("@AEAD_encrypt", "@AEAD_decrypt"):
        obs.append(Ob("C02.c.%s" % fn[1:], c_aead(fn), kind="custom", replay_fn=replay_c_aead, encoded=["_crypto.c:%s (LLVM IR, clang -O1)" % fn[1:]], bounds="arbitrary object state (any iv, key), any 64-bit packet number, payload argument of any length <= 2^40, header argument of any length < 2^31; every path of the function", outside="the cipher itself (OpenSSL contract stubs: ideal AEAD); AEAD_init / key installation (C02.glue.*)", stubs=["EVP_* -> contract stubs recording their arguments"], budget_s=600))
    return obs
