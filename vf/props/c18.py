"""C18 -- the connection-ID lifecycle honours the peer's instructions."""
from __future__ import annotations

from .. import connmodel as cm
from .. import symx as sx
from ..runner import Ob
from . import c05
from .c06 import FrameLog

ASSUMPTIONS = c05.ASSUMPTIONS[:1] + ["step-inductive: the peer-CID bookkeeping is put into an arbitrary state satisfying the representation invariant (seen numbers include current and spare ones; spare and current numbers are at or above the retire-prior-to mark), then one local switch and/or one or two frames are applied"]
V62 = (1 << 62) - 1


def peer_state(conn, navail=None, nret=None):
    """arbitrary valid peer-CID bookkeeping: current, <= 2 spare IDs, some already retired numbers"""
    from aioquic.quic.connection import QuicConnectionId

    rpt = sx.Int("st_rpt", 0, 1000)
    cur = sx.Int("st_cur", 0, 1000)
    sx.assume(cur >= rpt)
    conn._peer_retire_prior_to = rpt
    conn._peer_cid.sequence_number = cur
    seen = [cur]
    avail = []
    for j in range(sx.Choice("st_navail", 3) if navail is None else navail):
        s = sx.Int("st_av%d" % j, 0, 1000)
        sx.assume(sx.And(s >= rpt, *[s != x for x in seen]))
        seen.append(s)
        avail.append(QuicConnectionId(cid=bytes([0xA0 + j]) * 8, sequence_number=s, stateless_reset_token=bytes(16)))
    retired = []
    for j in range(sx.Choice("st_nretired", 3) if nret is None else nret):
        s = sx.Int("st_ret%d" % j, 0, 1000)
        sx.assume(sx.And(*[s != x for x in seen]))
        seen.append(s)
        retired.append(s)
    conn._peer_cid_available = avail
    conn._peer_cid_sequence_numbers = set(seen)
    conn._retire_connection_ids = []
    return cur, [a.sequence_number for a in avail], retired


def ncid_ob(role, nframes, navail=None, nret=None, local=None):
    name = "c05_busy_%s" % role

    def prep():
        c05._quiet()
        cm.prepare(name, c05.busy(role))

    def run():
        from aioquic import tls

        c05._quiet()
        # replay: the same bookkeeping state is installed on a real endpoint (real keys)
        p = cm.get(name, role) if sx.E.mode == "sym" else cm.Peer(*c05._replay_pair(role, "busy"))
        conn = p.conn
        # sequence numbers are only ever compared with each other: no constant key candidates
        sx.E.key_consts.clear()
        sx.E.key_consts_set.clear()
        cur, avail, retired = peer_state(conn, navail, nret)
        announced = list(retired)  # numbers whose retirement has been (or will be) announced
        if (sx.Bool("local_change_first") if local is None else local):
            had = len(conn._peer_cid_available) > 0
            old = conn._peer_cid.sequence_number
            conn.change_connection_id()
            if had:
                announced.append(old)
                sx.check(any(sx.truth(x == old) for x in conn._retire_connection_ids), "local switch did not queue the retirement of the abandoned ID")
        B = sx.BufferClass()
        buf = B(capacity=200)
        frames = []
        for j in range(nframes):
            seq = sx.Int("seq%d" % j, 0, 1000)
            rpt = sx.Int("rpt%d" % j, 0, 1000)
            buf.push_uint8(0x18)
            c05.push_v(buf, seq)
            c05.push_v(buf, rpt)
            buf.push_uint8(8)
            buf.push_bytes(bytes([0xC0 + j]) * 8)
            buf.push_bytes(bytes(16))
            frames.append((seq, rpt))
        before_q = list(conn._retire_connection_ids)
        p.deliver(tls.Epoch.ONE_RTT, buf.data, now=1.0)
        if conn._close_event is not None:
            sx.reached()
            return
        mark = conn._peer_retire_prior_to
        for seq, rpt in frames:
            if sx.truth(rpt <= seq):
                sx.check(mark >= rpt, "retire-prior-to mark not raised to the value the peer sent")
        # every later packet is addressed to an ID at or above the mark -- unless no such ID exists
        have_ok = any(sx.truth(a.sequence_number >= mark) for a in conn._peer_cid_available)
        if sx.truth(conn._peer_cid.sequence_number < mark):
            # only tolerable when the peer left nothing to switch to (the single ID at or above the
            # mark had already been used and retired locally)
            sx.check(not conn._peer_cid_available, "the connection ID in use is below the peer's retire-prior-to mark although a replacement is available")
        for a in conn._peer_cid_available:
            sx.check(a.sequence_number >= mark, "a spare connection ID below the retire-prior-to mark was kept")
        # nothing whose retirement was announced is adopted again
        for a in [conn._peer_cid] + list(conn._peer_cid_available):
            for r in announced:
                sx.check(a.sequence_number != r, "an ID whose retirement was already announced is in use / kept as spare again")
        # every abandoned ID is announced exactly once
        q = conn._retire_connection_ids
        for i in range(len(q)):
            for k in range(i + 1, len(q)):
                sx.check(q[i] != q[k], "the same retirement is queued twice")
        for old_seq in ([cur] + avail if not sx.truth(conn._peer_cid.sequence_number < mark) else avail):
            still = sx.Or(conn._peer_cid.sequence_number == old_seq, *[a.sequence_number == old_seq for a in conn._peer_cid_available])
            queued = sx.Or(*[x == old_seq for x in q]) if q else False
            sx.check(sx.Or(still, queued), "an abandoned connection ID was not queued for retirement")
        sx.check(1 + len(conn._peer_cid_available) <= conn._local_active_connection_id_limit, "more peer-issued IDs kept than advertised")

    return prep, run


def retire_write_ob(role):
    """pending retirements are written, or stay queued, whatever room the congestion window leaves"""
    name = "c05_busy_%s" % role

    def prep():
        c05._quiet()
        cm.prepare(name, c05.busy(role))

    def run():
        from aioquic.quic.packet_builder import QuicDeliveryState

        c05._quiet()
        p = cm.get(name, role) if sx.E.mode == "sym" else cm.Peer(*c05._replay_pair(role, "busy"))
        conn = p.conn
        n = 1 + sx.Choice("npending", 3)
        pending = [100 + i for i in range(n)]
        conn._retire_connection_ids = list(pending)
        conn._loss._cc.congestion_window = sx.Int("cwnd", 0, 3000)
        conn._loss._cc.bytes_in_flight = 0
        with FrameLog() as log:
            conn.datagrams_to_send(now=1.0)
        written = [args[0] for ft, h, args in log.frames if ft == 0x19]
        for s in pending:
            in_frame = any(x == s for x in written)
            queued = any(x == s for x in conn._retire_connection_ids)
            sx.check(in_frame or queued, "a pending connection-ID retirement was neither sent nor kept")
            sx.check(not (in_frame and queued), "a retirement was sent and kept queued at once")
        # loss of the frame queues the retirement again
        for ft, h, args in log.frames:
            if ft == 0x19:
                h(QuicDeliveryState.LOST, *args)
                sx.check(any(x == args[0] for x in conn._retire_connection_ids), "a lost RETIRE_CONNECTION_ID is not announced again")
        sx.reached()

    return prep, run


def issue_ob(role):
    """IDs issued to the peer: never more active than the peer allows, accepted until retired, replaced"""
    name = "c05_busy_%s" % role

    def prep():
        c05._quiet()
        cm.prepare(name, c05.busy(role))

    def run():
        from aioquic import tls

        c05._quiet()
        p = cm.get(name, role) if sx.E.mode == "sym" else cm.Peer(*c05._replay_pair(role, "busy"))
        conn = p.conn
        sx.register_keys(range(0x40))
        limit = min(8, conn._remote_active_connection_id_limit)
        seqs = [c.sequence_number for c in conn._host_cids]
        sx.check(len(seqs) <= limit, "more active connection IDs issued than the peer allows")
        via = conn._host_cids[sx.Choice("arrive_on", min(3, len(conn._host_cids)))]
        seq = sx.Int("retire_seq", 0, 40)
        B = sx.BufferClass()
        buf = B(capacity=32)
        buf.push_uint8(0x19)
        c05.push_v(buf, seq)
        p.deliver(tls.Epoch.ONE_RTT, buf.data, now=1.0, dcid=via.cid)
        issued = conn._host_cid_seq
        closed = conn._close_event
        if sx.truth(seq >= max(seqs) + 1):
            sx.check(closed is not None and closed.error_code == 0xA, "retiring a connection ID that was never issued is not a PROTOCOL_VIOLATION")
            return
        if sx.truth(seq == via.sequence_number):
            sx.check(closed is not None and closed.error_code == 0xA, "retiring the connection ID the packet arrived on is not a PROTOCOL_VIOLATION")
            return
        sx.check(closed is None, "a legitimate RETIRE_CONNECTION_ID closed the connection")
        now_seqs = [c.sequence_number for c in conn._host_cids]
        sx.check(len(now_seqs) == len(set(now_seqs)), "duplicate sequence numbers among issued IDs")
        sx.check(len(now_seqs) <= limit, "more active connection IDs than the peer allows after replacement")
        sx.check(len(now_seqs) == limit, "a retired connection ID was not replaced")
        for s in seqs:
            kept = s in now_seqs
            sx.check(kept != sx.truth(seq == s), "an ID was dropped without being retired / kept although retired")
        # a packet addressed to any remaining ID is still accepted
        other = conn._host_cids[sx.Choice("then_on", len(conn._host_cids))]
        ev_before = conn._spaces[tls.Epoch.ONE_RTT].largest_received_packet
        p.deliver(tls.Epoch.ONE_RTT, b"\x01", now=1.1, dcid=other.cid)
        sx.check(conn._spaces[tls.Epoch.ONE_RTT].largest_received_packet > ev_before, "a packet addressed to an issued, unretired connection ID was not accepted")

    return prep, run


def obligations(tier):
    T = tier == "thorough"
    Q = "aioquic.quic.connection.QuicConnection."
    obs = []
    for role in ("client", "server"):
        for nf in ((1, 2, 3) if T else (1, 2)):
            for na in ((0, 1, 2, 3, 4) if T else (0, 1, 2)):
                for nr in ((0, 1, 2) if T else (0, 1)):
                    for local in (False, True):
                        prep, run = ncid_ob(role, nf, na, nr, local)
                        obs.append(Ob("C18.ncid.%s.f%d.a%d.r%d.%s" % (role, nf, na, nr, "switch" if local else "noswitch"), run, cm.conn_shims, [Q + "_handle_new_connection_id_frame", Q + "_retire_peer_cid", Q + "_consume_peer_cid", Q + "change_connection_id"], bounds="arbitrary valid peer-CID state with %d spare and %d already retired numbers (all sequence numbers and the retire-prior-to mark symbolic in [0,1000]), %s local switch, then %d NEW_CONNECTION_ID frame(s) with arbitrary sequence number and retire-prior-to" % (na, nr, "a" if local else "no", nf), prepare=prep, budget_s=2400 if T else 280, max_decisions=1500, stubs=["CryptoPair -> transparent"]))
        prep, run = retire_write_ob(role)
        obs.append(Ob("C18.retire_write.%s" % role, run, cm.conn_shims, [Q + "_write_application", Q + "_write_retire_connection_id_frame", Q + "_on_retire_connection_id_delivery"], bounds="1-3 pending retirements, any congestion window in [0, 3000]", prepare=prep, budget_s=280, max_decisions=900))
        prep, run = issue_ob(role)
        obs.append(Ob("C18.issue.%s" % role, run, cm.conn_shims, [Q + "_handle_retire_connection_id_frame", Q + "_replenish_connection_ids", Q + "receive_datagram"], bounds="RETIRE_CONNECTION_ID with any sequence number arriving on any of 3 issued IDs, followed by a packet addressed to any remaining ID", prepare=prep, budget_s=280, max_decisions=900))
    return obs
