"""C08 -- loss-recovery and congestion accounting stay consistent."""
from __future__ import annotations

from .. import symx as sx
from ..runner import Ob

ASSUMPTIONS = [
    "floats are modelled as reals (DESIGN 3.5): rounding, NaN and infinities are outside; int() of a real is truncation",
    "the HyStart RTT monitor is a nondeterministic oracle (its verdict only moves ssthresh)",
    "CUBIC: the cubic target function and the cube root are uninterpreted (arbitrary values); only facts that hold for every value of them are claimed",
]
MDS = 1200


def shims():
    import aioquic.quic.congestion.cubic as cubic
    import aioquic.quic.congestion.reno as reno
    import aioquic.quic.rangeset as rs
    import aioquic.quic.recovery as rec

    return {rec: ["len", "min", "max", "int", "range", "abs", "sum"], reno: ["int", "max", "min"], cubic: ["int", "max", "min", ("better_cube_root", _cube_root)], rs: ["range", "min", "max", "len"]}


def _cube_root(x):
    sx.E.fresh += 1
    return sx.Real("cbrt!%d" % sx.E.fresh)


class Monitor:
    """stand-in for QuicRttMonitor"""

    def __init__(self):
        self.n = 0

    def is_rtt_increasing(self, *, now, rtt):
        self.n += 1
        return sx.Bool("rtt_increasing%d" % self.n)


def make(algo, arbitrary_cc):
    import logging

    import aioquic.quic.recovery as rec

    r = rec.QuicPacketRecovery(congestion_control_algorithm=algo, initial_rtt=0.1, max_datagram_size=MDS, peer_completed_address_validation=True, send_probe=lambda: None, logger=None)
    r._cc._rtt_monitor = Monitor()
    r._pacer.update_rate = lambda **kw: None  # pacing is outside the claim (DESIGN C08)
    r._rtt_min = sx.Real("rtt_min", 0, 1000)
    if sx.Bool("rtt_initialized"):
        r._rtt_initialized = True
        r._rtt_smoothed = sx.Real("srtt", 0, 10)
        r._rtt_variance = sx.Real("rttvar", 0, 10)
        r._rtt_latest = sx.Real("rtt_latest", 0, 10)
    if arbitrary_cc:
        r._cc.congestion_window = sx.Int("cwnd", 2 * MDS, 1 << 40)
        if sx.Bool("has_ssthresh"):
            r._cc.ssthresh = sx.Int("ssthresh", 2 * MDS, 1 << 40)
        r._cc._congestion_recovery_start_time = sx.Real("recovery_start", 0, 100)
        if algo == "reno":
            r._cc._congestion_stash = sx.Int("stash", 0, 1 << 40)
    if algo == "cubic":
        n = [0]

        def W_cubic(t):
            n[0] += 1
            return sx.Int("w_cubic%d" % n[0], -(1 << 50), 1 << 50, size_like=False)

        r._cc.W_cubic = W_cubic
    return r


def seq_ob(algo, nspaces, npre, nops, arbitrary_cc, prefix=(), two=True):
    def run():
        import aioquic.quic.recovery as rec
        from aioquic.quic.packet import QuicPacketType
        from aioquic.quic.packet_builder import QuicDeliveryState, QuicSentPacket
        from aioquic.quic.rangeset import RangeSet
        from aioquic.tls import Epoch

        r = make(algo, arbitrary_cc)
        spaces = [rec.QuicPacketSpace() for _ in range(nspaces)]
        r.spaces = spaces
        calls = {}  # (space index, pn) -> list of delivery states
        tracked = {}  # (space index, pn) -> packet
        next_pn = [0] * nspaces
        clock = [sx.Real("t0", 0, 100)]

        def later(name):
            t = sx.Real(name, 0, 1000)
            sx.assume(t >= clock[0])
            clock[0] = t
            return t

        def send(si, tag):
            pn = next_pn[si]
            next_pn[si] += 1
            pkt = QuicSentPacket(epoch=Epoch.ONE_RTT, in_flight=sx.SBool(tag + "in_flight"), is_ack_eliciting=sx.SBool(tag + "ack_eliciting"), is_crypto_packet=sx.SBool(tag + "crypto"), packet_number=pn, packet_type=QuicPacketType.ONE_RTT, sent_bytes=sx.Int(tag + "bytes", 0, 65535))
            key = (si, pn)
            calls[key] = []
            pkt.delivery_handlers = [(lambda state, k=key: calls[k].append(state), ())]
            pkt.sent_time = later(tag + "t")
            r.on_packet_sent(packet=pkt, space=spaces[si])
            tracked[key] = pkt

        def check_invariant(where):
            total = 0
            for si, sp in enumerate(spaces):
                elic = 0
                for pn, pkt in sp.sent_packets.items():
                    total = total + sx.ite(pkt.in_flight, pkt.sent_bytes, 0)
                    elic = elic + sx.ite(pkt.is_ack_eliciting, 1, 0)
                sx.check(sp.ack_eliciting_in_flight == elic, where + ": ack-eliciting counter differs from the tracked ack-eliciting packets")
                for pn in sp.sent_packets:
                    sx.check(not calls[(si, pn)], where + ": a packet still tracked was already reported")
            sx.check(r._cc.bytes_in_flight == total, where + ": bytes in flight differ from the size of the tracked in-flight packets")
            sx.check(r._cc.bytes_in_flight >= 0, where + ": bytes in flight negative")
            sx.check(r._cc.congestion_window >= 2 * MDS, where + ": congestion window below two datagrams")
            for key, c in calls.items():
                sx.check(len(c) <= 1, where + ": a packet's frames were reported more than once")
                if key not in [(si, pn) for si, sp in enumerate(spaces) for pn in sp.sent_packets] and not spaces[key[0]].discarded_by_test:
                    sx.check(len(c) == 1, where + ": a packet left tracking without its frames being reported")

        for sp in spaces:
            sp.discarded_by_test = False
        for j in range(npre):
            send(j % nspaces, "p%d_" % j)
        check_invariant("after the initial sends")
        for j in range(nops):
            op = prefix[j] if j < len(prefix) else ["send", "ack", "timeout", "discard", "reschedule"][sx.Choice("op%d" % j, 5)]
            si = sx.Choice("space%d" % j, nspaces) if nspaces > 1 else 0
            if op == "send":
                send(si, "s%d_" % j)
            elif op == "ack":
                rs_ = RangeSet()
                a = sx.Int("a%d" % j, 0, 8)
                n = sx.Int("n%d" % j, 1, 8)
                rs_.add(a, a + n)
                if two and sx.Bool("two_ranges%d" % j):
                    g = sx.Int("g%d" % j, 1, 4)
                    m = sx.Int("m%d" % j, 1, 4)
                    rs_.add(a + n + g, a + n + g + m)
                r.on_ack_received(ack_rangeset=rs_, ack_delay=sx.Real("ack_delay%d" % j, 0, 10), now=later("ack_t%d" % j), space=spaces[si])
            elif op == "timeout":
                r.on_loss_detection_timeout(now=later("to_t%d" % j))
            elif op == "discard":
                if spaces[si].discarded_by_test:
                    continue
                r.discard_space(spaces[si])
                spaces[si].discarded_by_test = True
            else:
                r.reschedule_data(now=later("rs_t%d" % j))
            check_invariant("after %s" % op)

    return run


def obligations(tier):
    T = tier == "thorough"
    R = "aioquic.quic.recovery.QuicPacketRecovery."
    enc = [R + "on_packet_sent", R + "on_ack_received", R + "on_loss_detection_timeout", R + "_detect_loss", R + "_on_packets_lost", R + "discard_space", R + "reschedule_data"]
    obs = []
    OPS = ["send", "ack", "timeout", "discard", "reschedule"]
    for algo, cc_enc in (("reno", ["aioquic.quic.congestion.reno.RenoCongestionControl.*"]), ("cubic", ["aioquic.quic.congestion.cubic.CubicCongestionControl.*"])):
        for arb in ((True, False) if algo == "reno" else (False,)):
            for nspaces in (1, 2):
                npre, nops = (3, 3) if T else (2, 2)
                for o0 in OPS:
                    for o1 in OPS:
                        if o0 == "discard" and nspaces == 1 and o1 != "send":
                            continue  # nothing left to act on
                        obs.append(Ob("C08.%s.%s.s%d.%s-%s" % (algo, "inductive" if arb else "fromstart", nspaces, o0, o1), seq_ob(algo, nspaces, npre, nops, arb, (o0, o1), two=(T or not (arb and o1 == "ack"))), shims, enc + cc_enc, bounds="%s congestion state, %d packet number space(s), %d initial sends, operations %s, %s and %d more (send, ACK with 1-2 arbitrary ranges over numbers 0-16 incl. never-sent ones, loss-detection timeout at an arbitrary later time, space discard, reschedule); sizes 0-65535, flags and times symbolic" % ("arbitrary valid" if arb else "initial", nspaces, npre, o0, o1, nops - 2), budget_s=2400 if T else 480, max_decisions=1500, stubs=["QuicRttMonitor -> nondeterministic", "cubic target / cube root -> uninterpreted", "pacer.update_rate -> no-op"]))
    return obs
