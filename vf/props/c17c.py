"""C17.c -- the C integer codecs against the RFC encodings written directly as z3 terms."""
from __future__ import annotations

import time

import z3

from .. import cmodel as C
from .. import ll2smt as L
from ..ll2smt import Ptr, bv
from ..runner import Ob

B8 = lambda x: z3.Extract(7, 0, x)


def be_bytes(v, n):
    """big-endian bytes of the low n*8 bits of bit-vector v"""
    return [z3.Extract(8 * (n - 1 - k) + 7, 8 * (n - 1 - k), v) for k in range(n)]


def rfc_varint_len(v):  # RFC 9000 section 16
    return z3.If(z3.ULE(v, 0x3F), bv(1, 64), z3.If(z3.ULE(v, 0x3FFF), bv(2, 64), z3.If(z3.ULE(v, 0x3FFFFFFF), bv(4, 64), bv(8, 64))))


def rfc_varint_byte(v, k):
    """byte k of the RFC 9000 encoding of v (k concrete, 0..7); meaningful for k < len"""
    out = None
    for n, prefix in ((1, 0), (2, 1), (4, 2), (8, 3)):
        if k < n:
            w = v | bv(prefix << (8 * n - 2), 64)
            b = be_bytes(w, n)[k]
        else:
            b = bv(0, 8)
        cond = rfc_varint_len(v) == n
        out = b if out is None else z3.If(cond, b, out)
    return out


def _model_inputs(ex):
    m = ex.solver.model()
    return {n: (m.eval(t, model_completion=True).as_signed_long() if n.endswith(":signed") else m.eval(t, model_completion=True).as_long()) for n, t in ex.inputs.items()}


def codec_fn(fname, kind, nbytes):
    """kind: push | pull | pushvar | pullvar"""

    def run():
        ex, paths, ctx = C.run_buffer_fn(fname)
        cap, pos, buf0 = ctx["cap"], ctx["pos"], ctx["buf"]
        arr0 = buf0.arr
        o_base, o_end, o_pos = ctx["offs"]
        viols = []
        checks = 0

        def fail(msg, pc, extra):
            r = ex.check(*(pc + [extra]))
            if r == z3.sat:
                viols.append({"msg": msg, "site": fname[1:], "inputs": dict(_model_inputs(ex), _fn=fname)})
                return True
            if r == z3.unknown:
                ex.inconclusive.append("solver unknown: " + msg)
            return False

        for p in paths:
            pc = p.cond
            so = C.final_self(p, ctx)
            newpos = so.slots[o_pos].off
            bufN = C.final_obj(p, "buf") or buf0
            raised = isinstance(p.ret, Ptr) and p.ret.obj is None
            if p.exc == "TypeError":
                continue  # argument of the wrong Python type: outside the codec
            arg = None
            for n, t in ex.inputs.items():
                if n.startswith("arg0_"):
                    arg = t
            if kind in ("push", "pushvar"):
                v = z3.ZeroExt(64 - arg.size(), arg) if arg.size() < 64 else arg
                if kind == "push":
                    n_enc = bv(nbytes, 64)
                    too_big = z3.BoolVal(False)
                    enc = be_bytes(v, nbytes) + [bv(0, 8)] * (8 - nbytes)
                else:
                    n_enc = rfc_varint_len(v)
                    too_big = z3.UGT(v, bv(0x3FFFFFFFFFFFFFFF, 64))
                    enc = [rfc_varint_byte(v, k) for k in range(8)]
                fits = z3.ULE(n_enc, cap - pos)
                checks += 1
                if raised:
                    exp = z3.If(too_big, 1, z3.If(fits, 0, 2))  # 1 ValueError, 2 BufferWriteError, 0 none
                    got = {"val_PyExc_ValueError": 1, "val_BufferWriteError": 2}.get(p.exc, 9)
                    fail("%s raises %s where the RFC encoder would %s" % (fname[1:], p.exc, "succeed or raise differently"), pc, exp != got)
                    fail("%s moves the position although it raised" % fname[1:], pc, newpos != pos)
                else:
                    fail("%s succeeds although the value does not fit / is out of range" % fname[1:], pc, z3.Or(too_big, z3.Not(fits)))
                    fail("%s advances by a different length than the RFC encoding" % fname[1:], pc, newpos != pos + n_enc)
                    for k in range(8):
                        fail("%s writes byte %d differently from the RFC encoding" % (fname[1:], k), pc, z3.And(z3.ULT(bv(k, 64), n_enc), z3.Select(bufN.arr, pos + k) != enc[k]))
                    j = z3.BitVec("j!frame", 64)
                    fail("%s modifies bytes outside the encoding" % fname[1:], pc, z3.And(z3.ULT(j, cap), z3.Or(z3.ULT(j, pos), z3.UGE(j, pos + n_enc)), z3.Select(bufN.arr, j) != z3.Select(arr0, j)))
            else:
                b = [z3.Select(arr0, pos + k) for k in range(8)]
                if kind == "pull":
                    n_dec = bv(nbytes, 64)
                    val = z3.Concat(*b[:nbytes]) if nbytes > 1 else b[0]
                    val = z3.ZeroExt(64 - 8 * nbytes, val) if nbytes < 8 else val
                    need_first = z3.ULE(bv(nbytes, 64), cap - pos)
                else:
                    pre = z3.LShR(b[0], 6)
                    n_dec = z3.If(pre == 0, bv(1, 64), z3.If(pre == 1, bv(2, 64), z3.If(pre == 2, bv(4, 64), bv(8, 64))))
                    b0 = b[0] & 0x3F
                    v1 = z3.ZeroExt(56, b0)
                    v2 = z3.ZeroExt(48, z3.Concat(b0, b[1]))
                    v4 = z3.ZeroExt(32, z3.Concat(b0, b[1], b[2], b[3]))
                    v8 = z3.Concat(b0, *b[1:8])
                    val = z3.If(pre == 0, v1, z3.If(pre == 1, v2, z3.If(pre == 2, v4, v8)))
                    need_first = z3.ULE(bv(1, 64), cap - pos)
                fits = z3.And(need_first, z3.ULE(n_dec, cap - pos))
                checks += 1
                if raised:
                    fail("%s raises although the input holds a complete value" % fname[1:], pc, fits)
                    if p.exc != "val_BufferReadError":
                        viols.append({"msg": "%s raises %s instead of BufferReadError" % (fname[1:], p.exc), "site": fname[1:], "inputs": {"_fn": fname}})
                    fail("%s moves the position although it raised" % fname[1:], pc, newpos != pos)
                else:
                    fail("%s succeeds on truncated input" % fname[1:], pc, z3.Not(fits))
                    fail("%s advances by a different length than the RFC decoding" % fname[1:], pc, newpos != pos + n_dec)
                    res = [r for r in p.results if r[0] == "int"]
                    if len(res) != 1:
                        viols.append({"msg": "%s does not return one integer" % fname[1:], "site": fname[1:], "inputs": {"_fn": fname}})
                    else:
                        got = res[0][1]
                        got = z3.ZeroExt(64 - got.size(), got) if got.size() < 64 else got
                        fail("%s returns a value different from the RFC decoding" % fname[1:], pc, got != val)
                    j = z3.BitVec("j!frame", 64)
                    fail("%s modifies the buffer" % fname[1:], pc, z3.And(z3.ULT(j, cap), z3.Select(bufN.arr, j) != z3.Select(arr0, j)))
        # the RFC codec itself round-trips (pure specification lemma, 62-bit domain)
        v = z3.BitVec("v", 64)
        s = z3.Solver()
        enc = [rfc_varint_byte(v, k) for k in range(8)]
        pre = z3.LShR(enc[0], 6)
        b0 = enc[0] & 0x3F
        dec = z3.If(pre == 0, z3.ZeroExt(56, b0), z3.If(pre == 1, z3.ZeroExt(48, z3.Concat(b0, enc[1])), z3.If(pre == 2, z3.ZeroExt(32, z3.Concat(b0, enc[1], enc[2], enc[3])), z3.Concat(b0, *enc[1:8]))))
        s.add(z3.ULE(v, bv(0x3FFFFFFFFFFFFFFF, 64)), dec != v)
        if kind in ("pushvar", "pullvar") and s.check() != z3.unsat:
            viols.append({"msg": "specification lemma decode(encode(v)) == v failed", "site": "spec", "inputs": {}})
        return {"paths": len(paths), "paths_with_checks": checks, "queries": ex.queries + 1, "solver_time": ex.solver_time, "violations": viols, "inconclusive": sorted(set(ex.inconclusive)), "samples": [{"function": fname[1:], "paths": len(paths), "spec": "RFC 9000 s16 varint" if "var" in kind else "%d-byte big-endian" % nbytes}], "exhaustive": not ex.inconclusive}

    return run


def replay_codec(inputs):
    """replay against the real extension built from the current sources: compare with a Python RFC codec"""
    fn = inputs.get("_fn", "")[1:].replace("Buffer_", "")
    cap, pos = inputs.get("cap", 0), inputs.get("pos", 0)
    if cap > 1 << 20:
        return {"reproduced": False, "why": "unreplayable: capacity %d" % cap}
    bs = [inputs.get("buf_b%d" % k, 0) for k in range(8)]
    arg = None
    for k, v in inputs.items():
        if k.startswith("arg0_"):
            arg = v
    script = r'''
import sys
from aioquic._buffer import Buffer, BufferReadError, BufferWriteError
cap, pos, bs, arg, fn = %d, %d, %r, %r, %r
def enc(v):
    for n, p in ((1, 0), (2, 1), (4, 2), (8, 3)):
        if v < 1 << (8 * n - 2):
            return (v | (p << (8 * n - 2))).to_bytes(n, "big")
    raise ValueError
def dec(d):
    if not d: raise BufferReadError
    n = 1 << (d[0] >> 6)
    if len(d) < n: raise BufferReadError
    return int.from_bytes(d[:n], "big") & ((1 << (8 * n - 2)) - 1), n
data = bytearray(cap)
data[pos:pos + 8] = bytes(bs)[:max(0, cap - pos)]
b = Buffer(data=bytes(data)); b.seek(pos)
def outcome(f):
    try: return ("ok", f())
    except BufferReadError: return ("exc", "BufferReadError")
    except BufferWriteError: return ("exc", "BufferWriteError")
    except ValueError: return ("exc", "ValueError")
if fn.startswith("pull"):
    got = outcome(getattr(b, fn)) + (b.tell(),)
    rest = bytes(data[pos:])
    if fn == "pull_uint_var":
        def ref():
            v, n = dec(rest); return v, n
    else:
        n = int(fn[9:]) // 8
        def ref():
            if len(rest) < n: raise BufferReadError
            return int.from_bytes(rest[:n], "big"), n
    try:
        v, n = ref(); exp = ("ok", v, pos + n)
    except BufferReadError:
        exp = ("exc", "BufferReadError", pos)
else:
    got = outcome(lambda: getattr(b, fn)(arg)) + (b.tell(),)
    got = got + (b.data_slice(0, cap),) if got[0] == "ok" else got
    try:
        e = enc(arg) if fn == "push_uint_var" else (arg %% (1 << int(fn[9:]))).to_bytes(int(fn[9:]) // 8, "big")
        if pos + len(e) > cap: exp = ("exc", "BufferWriteError", pos)
        else:
            d2 = bytearray(data); d2[pos:pos + len(e)] = e
            exp = ("ok", None, pos + len(e), bytes(d2))
    except ValueError:
        exp = ("exc", "ValueError", pos)
print(got, exp)
sys.exit(0 if got == exp else 1)
''' % (cap, pos, bs, arg, fn)
    rc, out = C.run_plain(script)
    return {"reproduced": rc == 1, "msg": "real extension disagrees with the RFC codec: " + out.strip()[-200:] if rc == 1 else "", "why": out, "script": script}


FNS = [("@Buffer_push_uint8", "push", 1), ("@Buffer_push_uint16", "push", 2), ("@Buffer_push_uint32", "push", 4), ("@Buffer_push_uint64", "push", 8), ("@Buffer_pull_uint8", "pull", 1), ("@Buffer_pull_uint16", "pull", 2), ("@Buffer_pull_uint32", "pull", 4), ("@Buffer_pull_uint64", "pull", 8), ("@Buffer_push_uint_var", "pushvar", 0), ("@Buffer_pull_uint_var", "pullvar", 0)]


def obligations(tier):
    obs = []
    mod = C.module("buffer")
    for fname, kind, n in FNS:
        if fname in mod.funcs:
            obs.append(Ob("C17.c.%s" % fname[8:], codec_fn(fname, kind, n), kind="custom", replay_fn=replay_codec, encoded=["_buffer.c:%s (LLVM IR)" % fname[1:]], bounds="every buffer state with capacity <= 2^40 and base <= pos <= end, every 64-bit argument value / every buffer content", outside="Python integers wider than 64 bits (PyArg 'K' masks them; outside the 62-bit varint domain)", budget_s=900))
    return obs
