"""C14 -- HTTP/3 events are independent of chunking and survive a round trip."""
from __future__ import annotations

from .. import h3model as hm
from .. import symx as sx
from ..runner import Ob
from .c15 import SymSet, _sorted
from .c16 import GOOD_REQ, GOOD_RESP

ASSUMPTIONS = ["QPACK is ideal: decoding a header block is a function of the block (here: the submitted list, or a fixed valid list for peer-chosen bytes); blocking is decided by the harness"]


def _h3():
    import aioquic.h3.connection as h3

    return h3


def shims():
    return hm.h3_shims(extra=[("frozenset", SymSet), ("set", SymSet), ("sorted", _sorted), "int"])


def normal_form(events):
    """per stream: headers / merged data / push promises in order, and whether the stream ended"""
    from aioquic.h3.events import DataReceived, DatagramReceived, HeadersReceived, PushPromiseReceived, WebTransportStreamDataReceived

    per = {}
    for e in events:
        sid = getattr(e, "stream_id", None)
        items, ended = per.setdefault(sid, ([], [False]))
        if isinstance(e, HeadersReceived):
            items.append(["headers", list(e.headers), e.push_id])
        elif isinstance(e, DataReceived):
            if items and items[-1][0] == "data" and items[-1][2] == e.push_id:
                items[-1][1] = items[-1][1] + e.data
            else:
                items.append(["data", e.data, e.push_id])
        elif isinstance(e, WebTransportStreamDataReceived):
            if items and items[-1][0] == "wt":
                items[-1][1] = items[-1][1] + e.data
            else:
                items.append(["wt", e.data, e.session_id])
        elif isinstance(e, PushPromiseReceived):
            items.append(["promise", list(e.headers), e.push_id])
        elif isinstance(e, DatagramReceived):
            items.append(["datagram", e.data, None])
        if getattr(e, "stream_ended", False):
            ended[0] = True
    # an empty data item carries no bytes: drop it
    out = {}
    for sid, (items, ended) in per.items():
        keep = []
        for it in items:
            if it[0] in ("data", "wt") and sx.truth(sx.length_of(it[1]) == 0):
                continue
            keep.append(it)
        # re-merge after dropping empties
        merged = []
        for it in keep:
            if merged and merged[-1][0] == it[0] and it[0] in ("data", "wt") and merged[-1][2] == it[2]:
                merged[-1][1] = merged[-1][1] + it[1]
            else:
                merged.append(list(it))
        if merged or ended[0]:
            out[sid] = (merged, ended[0])  # a stream that only produced empty, non-final data events says nothing
    return out


def compare(nf1, nf2, closed1, closed2, what):
    sx.check((closed1 is None) == (closed2 is None), what + ": one delivery closes the connection, the other does not")
    if closed1 is not None:
        # both deliveries end in a connection error; *which* violation is noticed first (and so the
        # code) may depend on the chunking of a stream that is malformed in several ways
        sx.reached()
        return
    sx.check(sorted(map(str, nf1)) == sorted(map(str, nf2)), what + ": events on different streams")
    for sid in nf1:
        a, ea = nf1[sid]
        b, eb = nf2.get(sid, ([], False))
        sx.check(ea == eb, what + ": end-of-stream differs")
        sx.check(len(a) == len(b), what + ": different number of events")
        for x, y in zip(a, b):
            sx.check(x[0] == y[0], what + ": event kinds differ")
            if x[0] in ("headers", "promise"):
                sx.check(x[1] == y[1], what + ": headers differ")
                sx.check_same(x[2], y[2], what + ": push id differs")
            else:
                sx.check_bytes_eq(x[1], y[1], what + ": body bytes differ")
                sx.check_same(x[2], y[2], what + ": id differs")


def fresh(is_client, blocked_ids=None):
    h3 = _h3()
    hm.IdealQpack.reset()
    quic = hm.FakeQuic(is_client)
    conn = h3.H3Connection(quic)
    return conn, quic


def deliver(conn, quic, pieces):
    out = []
    for ev in pieces:
        out += conn.handle_event(ev)
    return out


def split_ob(role, stream_class, maxlen, prefix=b""):
    def run():
        from aioquic.quic.events import StreamDataReceived

        is_client = role == "client"
        s = prefix + sx.Bytes("s", maxlen) if prefix else sx.Bytes("s", maxlen)
        n = sx.length_of(s)
        cut = sx.Int("cut", 0, maxlen + len(prefix))
        sx.assume(cut <= n)
        fin = sx.Bool("fin")
        peer_uni = [3, 7] if is_client else [2, 6]
        sid = 0 if stream_class == "request" else peer_uni[0]
        hdrs = list(GOOD_RESP if is_client else GOOD_REQ)

        def setup():
            conn, quic = fresh(is_client)
            hm.IdealQpack.on_header = staticmethod(lambda dec, st, data: list(hdrs))
            return conn, quic

        c1, q1 = setup()
        e1 = deliver(c1, q1, [StreamDataReceived(data=s, end_stream=fin, stream_id=sid)])
        c2, q2 = setup()
        e2 = deliver(c2, q2, [StreamDataReceived(data=s[:cut], end_stream=False, stream_id=sid), StreamDataReceived(data=s[cut:], end_stream=fin, stream_id=sid)])
        compare(normal_form(e1), normal_form(e2), q1.closed, q2.closed, "whole vs split delivery")

    return run


def interleave_ob(role, maxlen, norders=5):
    """two streams, two pieces each: per-stream events do not depend on the interleaving"""

    def run():
        from aioquic.quic.events import StreamDataReceived

        is_client = role == "client"
        a = sx.Bytes("a", maxlen)
        b = sx.Bytes("b", max(1, maxlen - 1))
        ca = sx.Int("ca", 0, maxlen)
        cb = sx.Int("cb", 0, max(1, maxlen - 1))
        sx.assume(sx.And(ca <= sx.length_of(a), cb <= sx.length_of(b)))
        peer_uni = [3, 7] if is_client else [2, 6]
        sa, sb = 0, peer_uni[0]
        hdrs = list(GOOD_RESP if is_client else GOOD_REQ)
        A = [StreamDataReceived(data=a[:ca], end_stream=False, stream_id=sa), StreamDataReceived(data=a[ca:], end_stream=True, stream_id=sa)]
        Bv = [StreamDataReceived(data=b[:cb], end_stream=False, stream_id=sb), StreamDataReceived(data=b[cb:], end_stream=False, stream_id=sb)]
        orders = [[A[0], A[1], Bv[0], Bv[1]], [A[0], Bv[0], A[1], Bv[1]], [Bv[0], A[0], Bv[1], A[1]], [Bv[0], Bv[1], A[0], A[1]], [A[0], Bv[0], Bv[1], A[1]], [Bv[0], A[0], A[1], Bv[1]]]
        k = [1, 3, 2, 4, 5][sx.Choice("order", norders)]
        res = []
        for order in (orders[0], orders[k]):
            conn, quic = fresh(is_client)
            hm.IdealQpack.on_header = staticmethod(lambda dec, st, data: list(hdrs))
            res.append((normal_form(deliver(conn, quic, order)), quic.closed))
        (n1, c1), (n2, c2) = res
        if c1 is None and c2 is None:
            compare(n1, n2, c1, c2, "interleavings")
        else:
            # a stream error closes the connection: which events of the *other* stream came first depends on the order
            sx.check((c1 is None) == (c2 is None), "one interleaving closes the connection, the other does not")
            sx.reached()

    return run


def roundtrip_ob(role):
    """submitted headers/body/trailers arrive unchanged under any split of the stream bytes, also when the
    header block has to wait for the encoder stream"""

    def run():
        h3 = _h3()
        from aioquic.h3.events import DataReceived, HeadersReceived
        from aioquic.quic.events import StreamDataReceived

        sender_is_client = role == "client"
        hm.IdealQpack.reset()
        sq = hm.FakeQuic(sender_is_client)
        sender = h3.H3Connection(sq)
        hdrs = list(GOOD_REQ if sender_is_client else GOOD_RESP)
        trailers = [(b"x-t", b"1")]
        body = sx.Bytes("body", 4)
        with_body = sx.Bool("with_body")
        with_trailers = sx.Bool("with_trailers")
        sid = 0
        if not sender_is_client:
            # the server answers a request it has received
            sender.handle_event(StreamDataReceived(data=b"\x01\x02\xe0\x63", end_stream=True, stream_id=0)) if False else None
        mark = len(sq.sent)
        sender.send_headers(sid, hdrs, end_stream=not with_body and not with_trailers)
        if with_body:
            sender.send_data(sid, body, end_stream=not with_trailers)
        if with_trailers:
            sender.send_headers(sid, trailers, end_stream=True)
        wire = b""
        fin = False
        for st, data, end in sq.sent[mark:]:
            if st == sid:
                wire = wire + data
                fin = fin or end
        sx.check(fin, "sending API did not finish the stream")
        encoded = list(hm.IdealQpack.encoded)
        # receiver
        rq = hm.FakeQuic(not sender_is_client)
        hm.IdealQpack.encoded = encoded
        recv = h3.H3Connection(rq)
        hm.IdealQpack.encoded = encoded
        if not sender_is_client:
            # the receiving client has already sent its complete request on this stream
            recv.send_headers(sid, list(GOOD_REQ), end_stream=True)
        blocked_first = sx.Bool("blocked_first")
        state = {"blocked": blocked_first, "waiting": []}

        def on_header(dec, st, data):
            token = data[1]
            if state["blocked"]:
                state["waiting"].append((st, token))
                raise hm.StreamBlocked()
            return list(encoded[token])

        def on_resume(dec, st):
            for w in state["waiting"]:
                if w[0] == st:
                    state["waiting"].remove(w)
                    return list(encoded[w[1]])
            raise hm.DecompressionFailed()

        def on_encoder_data(dec, data):
            state["blocked"] = False
            return sorted({w[0] for w in state["waiting"]})

        hm.IdealQpack.on_header = staticmethod(on_header)
        hm.IdealQpack.on_resume = staticmethod(on_resume)
        hm.IdealQpack.on_encoder_data = staticmethod(on_encoder_data)
        n = sx.length_of(wire)
        cut = sx.Int("cut", 0, 64)
        sx.assume(cut <= n)
        evs = deliver(recv, rq, [StreamDataReceived(data=wire[:cut], end_stream=False, stream_id=sid), StreamDataReceived(data=wire[cut:], end_stream=True, stream_id=sid)])
        if blocked_first:
            peer_uni = 2 if sender_is_client else 3
            evs += deliver(recv, rq, [StreamDataReceived(data=b"\x02\x00", end_stream=False, stream_id=peer_uni)])
        sx.check(rq.closed is None, "receiver closed the connection on a message produced by the sending API")
        nf = normal_form(evs).get(sid, ([], False))
        items, ended = nf
        exp = [["headers", hdrs, None]]
        if with_body and sx.truth(sx.length_of(body) > 0):
            exp.append(["data", body, None])
        if with_trailers:
            exp.append(["headers", trailers, None])
        sx.check(ended, "end of stream not delivered")
        sx.check(len(items) == len(exp), "number of delivered events differs from what was submitted")
        for x, y in zip(items, exp):
            sx.check(x[0] == y[0], "event kinds differ from what was submitted")
            if x[0] == "headers":
                sx.check(x[1] == y[1], "headers arrive changed")
            else:
                sx.check_bytes_eq(x[1], y[1], "body arrives changed")

    return run


def obligations(tier):
    T = tier == "thorough"
    P = "aioquic.h3.connection.H3Connection."
    enc = [P + "handle_event", P + "_receive_stream_data_uni", P + "_receive_request_or_push_data", P + "_handle_request_or_push_frame", P + "_handle_control_frame", P + "send_headers", P + "send_data"]
    obs = []
    n = 8 if T else 6
    for role in ("client", "server"):
        for cls in ("request", "uni"):
            obs.append(Ob("C14.split.%s.%s" % (role, cls), split_ob(role, cls, n), shims, enc, bounds="every byte string of length <= %d on a %s stream, every split point, with or without FIN" % (n, cls), env=hm.patched_qpack, budget_s=2400 if T else 480, max_decisions=1500))
        m = 6 if T else 5
        obs.append(Ob("C14.split.%s.request.afterheaders" % role, split_ob(role, "request", m, b"\x01\x02\xe0\x00"), shims, enc, bounds="a HEADERS frame followed by every byte string of length <= %d on a request stream, every split point of the whole, with or without FIN" % m, env=hm.patched_qpack, budget_s=2400 if T else 480, max_decisions=1500))
        if role == "client":
            obs.append(Ob("C14.split.client.push.afterheaders", split_ob(role, "uni", m, b"\x01\x00\x01\x02\xe0\x00"), shims, enc, bounds="a push stream (type, push id, HEADERS frame) followed by every byte string of length <= %d, every split point of the whole, with or without FIN" % m, env=hm.patched_qpack, budget_s=2400 if T else 480, max_decisions=1500))
        obs.append(Ob("C14.interleave.%s" % role, interleave_ob(role, 3 if T else 2, 5 if T else 2), shims, enc, bounds="two streams (request + peer unidirectional), every content of length <= %d each, every split, order-preserving interleavings against the sequential one" % (3 if T else 2), env=hm.patched_qpack, budget_s=2400 if T else 480, max_decisions=1500))
        obs.append(Ob("C14.roundtrip.%s" % role, roundtrip_ob(role), shims, enc, bounds="headers, optional body of <= 4 symbolic bytes, optional trailers submitted through send_headers/send_data; every split of the resulting stream bytes; header blocks decodable at once or only after the encoder stream delivers", env=hm.patched_qpack, budget_s=900 if T else 280, max_decisions=1500))
    return obs
