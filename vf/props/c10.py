"""C10 -- stream send and receive halves conform to a reference model.

Real code executed symbolically: all of aioquic/quic/stream.py and rangeset.py.
"""
from __future__ import annotations

from .. import symx as sx
from ..runner import Ob

ASSUMPTIONS = [
    "a peer sends the same byte for the same stream offset (content is a function of the offset)",
    "each emitted frame gets at most one delivery callback (ACKED xor LOST) -- the packet-level guarantee of C08",
]

BIG = 1 << 62
HUGE = 1 << 80


def _mods():
    import aioquic.quic.rangeset as rs
    import aioquic.quic.stream as st

    return st, rs


def shims():
    st, rs = _mods()
    return {st: ["len", "bytes", "bytearray", "min", "max"], rs: ["range", "min", "max", "len"]}


# ---------------------------------------------------------------- helpers
def advance(p, ranges):
    """reference: least offset >= p not covered by `ranges` (mode agnostic)"""
    for _ in range(len(ranges)):
        for a, b in ranges:
            p = sx.ite(sx.And(a <= p, p < b), b, p)
    return p


def covered(x, ranges):
    return sx.Or(*[sx.And(a <= x, x < b) for a, b in ranges]) if ranges else False


def check_cover(lo, hi, ranges, msg):
    """every x in [lo, hi) lies in one of `ranges`"""
    if sx.E.mode == "replay":
        p = advance(lo, ranges)
        sx.check(p >= hi, msg)
        return
    x = sx.SymInt(sx.z3.Int(sx.E.fresh_name("x")))
    sx.check(sx.Implies(sx.And(lo <= x, x < hi), covered(x, ranges)), msg)


# ---------------------------------------------------------------- receiver
def recv_seq(k, allow_reset=True):
    def run():
        st, rs = _mods()
        from aioquic.quic.packet import QuicStreamFrame

        S = sx.Fn("S")
        r = st.QuicStreamReceiver(stream_id=0, readable=True)
        have = []
        final = None
        reset_done = False
        for j in range(k):
            is_reset = allow_reset and sx.Bool("reset%d" % j)
            before = r._buffer_start
            if is_reset:
                fs = sx.Int("fs%d" % j, 0, BIG)
                exp_err = final is not None and sx.truth(fs != final)
                try:
                    ev = r.handle_reset(final_size=fs)
                except st.FinalSizeError:
                    if not exp_err:
                        sx.fail("unexpected FinalSizeError on reset")
                    sx.reached()
                    return
                if exp_err:
                    sx.fail("reset disagreeing with the fixed final size was accepted")
                sx.check(ev is not None and r.is_finished, "accepted reset does not finish the receive half")
                final = fs
                reset_done = True
                continue
            o = sx.Int("o%d" % j, 0, BIG)
            ln = sx.Int("l%d" % j, 0, BIG)
            fin = sx.Bool("f%d" % j)
            end = o + ln
            data = sx.BytesOf(S, o, ln)
            exp_err = False
            if final is not None:
                if sx.truth(end > final) or (fin and sx.truth(end != final)):
                    exp_err = True
            try:
                ev = r.handle_frame(QuicStreamFrame(offset=o, data=data, fin=fin))
            except st.FinalSizeError:
                if not exp_err:
                    sx.fail("unexpected FinalSizeError")
                sx.reached()
                return
            if exp_err:
                sx.fail("missing FinalSizeError")
            if fin:
                final = end
            have.append((o, end))
            after = r._buffer_start
            exp_after = advance(before, have)
            sx.check(after == exp_after, "delivery pointer differs from the offset-to-byte map")
            got = ev.data if ev is not None else b""
            sx.check_bytes_eq(got, sx.BytesOf(S, before, exp_after - before), "delivered bytes differ from the offset-to-byte map")
            if not reset_done:
                fin_now = final is not None and sx.truth(after == final)
                es = bool(ev.end_stream) if ev is not None else False
                sx.check(es == fin_now, "end marker differs from the reference model")
                sx.check(bool(r.is_finished) == fin_now, "is_finished differs from the reference model")
                if ev is None:
                    sx.check(sx.length_of(got) == 0, "data delivered without an event")
            hi = have[0][1]
            for _, b in have[1:]:
                hi = sx.ite(b > hi, b, hi)
            sx.check(r.highest_offset == hi, "highest_offset differs from the largest frame end seen")

    return run


# ---------------------------------------------------------------- rangeset
def rangeset_ops(nranges, nops):
    """membership semantics and canonical form of RangeSet under add/subtract/shift"""

    def run():
        st, rs = _mods()
        s = rs.RangeSet()
        model_add = []  # list of ("add"|"sub", a, b) history
        probe = sx.Int("probe", -4, BIG)

        def member(x):
            # reference membership by replaying the history on one point
            inside = False
            for kind, a, b in model_add:
                hit = sx.And(a <= x, x < b)
                if kind == "add":
                    inside = sx.Or(inside, hit)
                else:
                    inside = sx.And(inside, sx.Not(hit))
            return inside

        for j in range(nranges + nops):
            if j < nranges:
                kind = 0
            else:
                kind = sx.Choice("op%d" % j, 3)
            if kind == 2:
                if len(s) == 0:
                    continue
                first = s[0]
                r = s.shift()
                sx.check(sx.And(r.start == first.start, r.stop == first.stop), "shift returned a range other than the first")
                model_add.append(("sub", r.start, r.stop))
            else:
                a = sx.Int("a%d" % j, 0, BIG)
                n = sx.Int("n%d" % j, 1, BIG)
                b = a + n
                if kind == 0:
                    s.add(a, b)
                    model_add.append(("add", a, b))
                else:
                    s.subtract(a, b)
                    model_add.append(("sub", a, b))
            # membership agrees with the reference on an arbitrary probe point
            inside_impl = False
            for rr in list(s):
                inside_impl = sx.Or(inside_impl, sx.And(rr.start <= probe, probe < rr.stop))
            sx.check(sx.Or(sx.And(inside_impl, member(probe)), sx.And(sx.Not(inside_impl), sx.Not(member(probe)))), "RangeSet membership differs from the set semantics")
            # canonical form: sorted, non-empty, non-touching
            prev = None
            for rr in list(s):
                sx.check(rr.start < rr.stop, "empty range stored")
                if prev is not None:
                    sx.check(prev.stop < rr.start, "ranges not sorted / not merged")
                prev = rr
            if len(s):
                bd = s.bounds()
                sx.check(sx.And(bd.start == s[0].start, bd.stop == s[len(s) - 1].stop), "bounds() wrong")

    return run


# ---------------------------------------------------------------- sender
def send_seq(k, prefix=()):
    def run():
        st, rs = _mods()
        from aioquic.quic.packet_builder import QuicDeliveryState

        W = sx.Fn("W")
        s = st.QuicStreamSender(stream_id=0, writable=True)
        n = 0  # bytes written
        fin_written = False
        emitted = []  # [start, stop, fin, state]  state: 0 in flight, 1 acked, 2 lost
        reset = False
        reset_inflight = 0
        reset_acked = False
        all_acked_before_reset = [False]

        def check_frame(f, max_size, max_offset):
            ln = sx.length_of(f.data)
            stop = f.offset + ln
            sx.check(sx.And(f.offset >= 0, stop <= n), "frame outside the written bytes")
            sx.check_bytes_eq(f.data, sx.BytesOf(W, f.offset, ln), "frame bytes differ from the written bytes")
            if max_size is not None:
                sx.check(sx.Or(ln <= max_size, ln == 0), "frame longer than the size cap")
            if max_offset is not None:
                sx.check(sx.Or(stop <= max_offset, ln == 0), "frame beyond the offset cap")
            if f.fin:
                sx.check(fin_written and sx.truth(stop == n), "FIN set before the end of the written bytes")
            sx.check(sx.Or(ln > 0, f.fin), "empty frame without FIN")
            return stop

        for j in range(k):
            ops = ["write", "get", "ack", "lose", "reset", "reset_frame", "reset_delivery"]
            if j < len(prefix):
                op = prefix[j]  # shard: the first operation kinds are fixed per obligation
            else:
                op = ops[sx.Choice("op%d" % j, len(ops))]
            if op == "write":
                if fin_written or reset:
                    continue
                ln = sx.Int("wl%d" % j, 0, BIG)
                fin = sx.Bool("wf%d" % j)
                s.write(sx.BytesOf(W, n, ln), end_stream=fin)
                n = n + ln
                fin_written = fin
            elif op == "get":
                if reset:
                    continue  # the connection never asks for data after reset()
                ms = sx.Int("ms%d" % j, -8, BIG)
                has_mo = sx.Bool("hmo%d" % j)
                mo = sx.Int("mo%d" % j, 0, BIG) if has_mo else None
                f = s.get_frame(ms, mo)
                if f is not None:
                    stop = check_frame(f, ms, mo)
                    emitted.append([f.offset, stop, bool(f.fin), 0])
            elif op in ("ack", "lose"):
                live = [e for e in emitted if e[3] == 0]
                if not live:
                    continue
                e = live[sx.Choice("which%d" % j, len(live))]
                e[3] = 1 if op == "ack" else 2
                s.on_data_delivery(QuicDeliveryState.ACKED if op == "ack" else QuicDeliveryState.LOST, e[0], e[1], e[2])
            elif op == "reset":
                s.reset(error_code=7)
                reset = True
            elif op == "reset_frame":
                if not s.reset_pending:
                    continue
                rf = s.get_reset_frame()
                hi = 0
                for e in emitted:
                    hi = sx.ite(e[1] > hi, e[1], hi)
                sx.check(rf.final_size == hi, "reset final size is not the highest offset sent")
                sx.check(rf.error_code == 7, "reset error code lost")
                reset_inflight += 1
            elif op == "reset_delivery":
                if reset_inflight == 0:
                    continue
                reset_inflight -= 1
                ok = sx.Bool("rack%d" % j)
                s.on_reset_delivery(QuicDeliveryState.ACKED if ok else QuicDeliveryState.LOST)
                if ok:
                    reset_acked = True
                else:
                    sx.check(s.reset_pending, "lost reset not re-offered")

            # completion: exactly when all bytes and the FIN, or the reset, were acknowledged
            acked = [(e[0], e[1]) for e in emitted if e[3] == 1]
            fin_acked = any(e[2] and e[3] == 1 for e in emitted)
            all_acked = fin_written and fin_acked and sx.truth(advance(0, acked) >= n)
            if reset:
                sx.check(bool(s.is_finished) == (reset_acked or all_acked_before_reset[0]), "completion differs from the reference model after reset")
            else:
                all_acked_before_reset[0] = all_acked
                sx.check(bool(s.is_finished) == all_acked, "completion differs from the reference model")
            if reset:
                sx.check(s.buffer_is_empty, "data offered after reset")

        # drain: everything unacknowledged and not in flight is offered again
        if not reset:
            drained = []
            fin_offered = False
            flag_empty = bool(s.buffer_is_empty)  # the connection only polls a stream whose flag is False
            for _ in range(len(emitted) + 3):
                f = s.get_frame(HUGE, None)
                if f is None:
                    break
                stop = check_frame(f, HUGE, None)
                drained.append((f.offset, stop))
                fin_offered = fin_offered or bool(f.fin)
            else:
                sx.fail("sender keeps offering frames without end")
            sx.check(not (flag_empty and drained), "pending data or FIN would never be requested: buffer_is_empty is True while a frame is on offer")
            sx.check(s.get_frame(HUGE, None) is None, "sender offers more after returning None")
            sx.check(s.buffer_is_empty, "buffer_is_empty false after everything was taken")
            have = drained + [(e[0], e[1]) for e in emitted if e[3] in (0, 1)]
            check_cover(0, n, have, "a written byte is neither acknowledged, in flight nor re-offered")
            if fin_written:
                fin_somewhere = fin_offered or any(e[2] and e[3] in (0, 1) for e in emitted)
                sx.check(fin_somewhere, "FIN is neither acknowledged, in flight nor re-offered")
            # nothing acknowledged is offered again
            for a, b in drained:
                for e in emitted:
                    if e[3] == 1:
                        sx.check(sx.Or(b <= e[0], a >= e[1]), "acknowledged bytes offered again")

    return run


# ---------------------------------------------------------------- registry
ENC_RECV = ["aioquic.quic.stream.QuicStreamReceiver.handle_frame", "aioquic.quic.stream.QuicStreamReceiver.handle_reset", "aioquic.quic.stream.QuicStreamReceiver._pull_data", "aioquic.quic.rangeset.RangeSet.add", "aioquic.quic.rangeset.RangeSet.shift"]
ENC_SEND = ["aioquic.quic.stream.QuicStreamSender.write", "aioquic.quic.stream.QuicStreamSender.get_frame", "aioquic.quic.stream.QuicStreamSender.on_data_delivery", "aioquic.quic.stream.QuicStreamSender.reset", "aioquic.quic.stream.QuicStreamSender.get_reset_frame", "aioquic.quic.stream.QuicStreamSender.on_reset_delivery", "aioquic.quic.rangeset.RangeSet.add", "aioquic.quic.rangeset.RangeSet.subtract", "aioquic.quic.rangeset.RangeSet.shift"]
ENC_RS = ["aioquic.quic.rangeset.RangeSet.add", "aioquic.quic.rangeset.RangeSet.subtract", "aioquic.quic.rangeset.RangeSet.shift", "aioquic.quic.rangeset.RangeSet.bounds", "aioquic.quic.rangeset.RangeSet.__getitem__"]


def obligations(tier):
    thorough = tier == "thorough"
    obs = []
    kr = 4 if thorough else 3
    obs.append(Ob("C10.recv.seq%d" % kr, recv_seq(kr), shims, ENC_RECV, bounds="every sequence of %d operations (STREAM frame with offset,length in [0,2^62], FIN flag; RESET with any final size) from the initial state; content uninterpreted" % kr, outside="histories longer than %d operations (see C10.recv.ind)" % kr, budget_s=1500 if thorough else 240))
    obs.append(Ob("C10.rs.ops", rangeset_ops(3 if thorough else 2, 2), shims, ENC_RS, bounds="%d arbitrary adds followed by 2 arbitrary operations (add/subtract/shift), bounds in [0,2^62]" % (3 if thorough else 2), budget_s=1200 if thorough else 200))
    ks = 5 if thorough else 4
    # a history that does not start with a write or a reset only performs no-ops until one happens,
    # so the two shards below cover every sequence of ks operations
    OPS = ["write", "get", "ack", "lose", "reset", "reset_frame", "reset_delivery"]
    for pre in [("reset",)] + [("write", o) for o in OPS]:
        obs.append(Ob("C10.send.seq%d.%s" % (ks, "-".join(pre)), send_seq(ks, pre), shims, ENC_SEND, bounds="operation kinds " + ",".join(pre) + " (arguments symbolic), then every sequence of %d operations (write any length/FIN, get_frame any size cap in [-8,2^62] and optional offset cap, ACKED/LOST of any in-flight frame, reset, get_reset_frame, reset delivery) followed by a drain" % (ks - len(pre)), outside="histories longer than %d operations" % ks, budget_s=1500 if thorough else 240))
    return obs
