"""C15 -- HTTP/3 applications only ever see well-formed messages."""
from __future__ import annotations

from .. import h3model as hm
from .. import symx as sx
from ..runner import Ob

ASSUMPTIONS = ["QPACK is ideal: the decoder returns the header list the peer chose (any list)", "content-length spellings are taken from a fixed menu (int() on symbolic digit strings is not modelled)"]


def _h3():
    import aioquic.h3.connection as h3

    return h3


class SymSet:
    """set()/frozenset() stand-in whose membership test works on symbolic byte strings"""

    def __init__(self, it=()):
        self.items = list(it)

    def __contains__(self, k):
        for x in self.items:
            if (k == x) if not isinstance(k, sx.SymBytes) else k.__eq__(x):
                return True
        return False

    def add(self, k):
        if k not in self:
            self.items.append(k)

    def update(self, it):
        for x in it:
            self.add(x)

    def difference(self, other):
        return SymSet([x for x in self.items if x not in other])

    def __iter__(self):
        return iter(self.items)

    def __len__(self):
        return len(self.items)

    def __bool__(self):
        return bool(self.items)


def _sorted(x):
    return list(x)


def shims():
    return hm.h3_shims(extra=[("frozenset", SymSet), ("set", SymSet), ("sorted", _sorted), "int"])


# ------------------------------------------------------------------ reference predicates (RFC 9113 s8.2.1, RFC 9114 s4.1.2/4.3)
def ref_name_ok(key):
    n = len(key)
    conds = []
    for i in range(n):
        c = key[i]
        ok = sx.And(c >= 0x21, c <= 0x7E, sx.Not(sx.And(c >= 0x41, c <= 0x5A)))
        if i > 0:
            ok = sx.And(ok, c != 0x3A)
        conds.append(ok)
    return sx.And(*conds) if conds else True


def ref_value_ok(value):
    n = len(value)
    conds = []
    for i in range(n):
        c = value[i]
        conds.append(sx.And(c != 0, c != 0x0A, c != 0x0D))
    if n > 0:
        conds.append(sx.And(value[0] != 0x20, value[0] != 0x09))
        conds.append(sx.And(value[n - 1] != 0x20, value[n - 1] != 0x09))
    return sx.And(*conds) if conds else True


def name_check(maxlen):
    def run():
        h3 = _h3()
        key = sx.Bytes("key", maxlen)
        try:
            h3.validate_header_name(key)
            accepted = True
        except h3.MessageError:
            accepted = False
        exp = ref_name_ok(key)
        sx.check(sx.Or(sx.And(accepted, exp), sx.And(not accepted, sx.Not(exp))), "header name accepted/rejected against RFC 9113 s8.2.1")

    return run


def value_check(maxlen):
    def run():
        h3 = _h3()
        value = sx.Bytes("value", maxlen)
        try:
            h3.validate_header_value(b"x", value)
            accepted = True
        except h3.MessageError:
            accepted = False
        exp = ref_value_ok(value)
        sx.check(sx.Or(sx.And(accepted, exp), sx.And(not accepted, sx.Not(exp))), "header value accepted/rejected against RFC 9113 s8.2.1")

    return run


# ------------------------------------------------------------------ header lists
MENU = [
    (b":method", [b"GET"]),
    (b":scheme", [b"https", b"ftp"]),
    (b":authority", [b"a", b""]),
    (b":path", [b"/", b""]),
    (b":status", [b"200"]),
    (b":protocol", [b"websocket"]),
    (b"content-length", [b"3", b"0", b"-1", b"x", b"", b"+3", b"1_0"]),
    (b"transfer-encoding", [b"trailers", b"gzip"]),
]
KINDS = {"request": ((b":method", b":scheme", b":authority", b":path", b":protocol"), (b":method",)), "response": ((b":status",), (b":status",)), "trailers": ((), ()), "push": ((b":method", b":scheme", b":authority", b":path"), (b":method", b":scheme", b":authority", b":path"))}


def pick_header(j):
    """one header: a constant from the menu or a short fully symbolic (name, value)"""
    i = sx.Choice("h%d" % j, len(MENU) + 1)
    if i < len(MENU):
        name, vals = MENU[i]
        return name, vals[sx.Choice("v%d" % j, len(vals))], True
    return sx.Bytes("name%d" % j, 2, 1), sx.Bytes("val%d" % j, 2), False


def is_pseudo(name):
    return sx.truth(name[0] == 0x3A)


def ref_must_reject(headers, kind):
    """rules of the property statement; True = the message breaks one of them"""
    allowed, required = KINDS[kind]
    seen = []
    regular_seen = False
    for name, value, const in headers:
        if not const:
            if not sx.truth(ref_name_ok(name)) or not sx.truth(ref_value_ok(value)):
                return True
        if is_pseudo(name):
            if regular_seen:
                return True
            nm = bytes(name) if const else None
            if nm is None or nm not in allowed:  # a short symbolic ":x" is never a defined pseudo-header
                return True
            if nm in seen:
                return True
            seen.append(nm)
        else:
            regular_seen = True
            if const and name == b"content-length":
                if not (value.isdigit() and value.isascii()) and value not in (b"+3", b"1_0"):
                    return True
    for r in required:
        if r not in seen:
            return True
    return False


def ref_must_accept(headers, kind):
    """a message the library documents as acceptable (complete, conventional spelling)"""
    if ref_must_reject(headers, kind):
        return False
    d = {}
    for name, value, const in headers:
        if const:
            if bytes(name) in (b"transfer-encoding", b"content-length") and bytes(name) in d and d[bytes(name)] != value:
                return False  # repeated with different values: either verdict is fine
            d[bytes(name)] = value
    if kind == "request" and b":authority" not in d:
        return False
    if d.get(b":scheme") in (b"http", b"https") and (not d.get(b":authority") or not d.get(b":path")):
        return False
    if d.get(b"transfer-encoding", b"trailers") != b"trailers":
        return False
    if d.get(b"content-length", b"0") in (b"+3", b"1_0"):
        return False  # exotic spellings: either verdict is fine
    return True


def headers_check(kind, k):
    def run():
        h3 = _h3()
        hs = [pick_header(j) for j in range(k)]
        fn = {"request": h3.validate_request_headers, "response": h3.validate_response_headers, "trailers": h3.validate_trailers, "push": h3.validate_push_promise_headers}[kind]
        try:
            fn([(n, v) for n, v, _ in hs])
            accepted = True
        except h3.MessageError:
            accepted = False
        if ref_must_reject(hs, kind):
            sx.check(not accepted, "%s header list breaking the rules was accepted" % kind)
        elif ref_must_accept(hs, kind):
            sx.check(accepted, "well-formed %s header list was rejected" % kind)
        else:
            sx.reached()

    return run


# ------------------------------------------------------------------ through the connection: event <=> valid; content-length vs body
def stream_check(role, nextra):
    """a peer sends HEADERS (decoded by the ideal QPACK to an arbitrary menu/symbolic list), then DATA
    pieces and FIN on a request stream; events only for valid messages, content-length == body at end"""

    def run():
        h3 = _h3()
        from aioquic.h3.events import DataReceived, HeadersReceived
        from aioquic.quic.events import StreamDataReceived

        hm.IdealQpack.reset()
        is_client = role == "client"
        kind = "response" if is_client else "request"
        quic = hm.FakeQuic(is_client)
        conn = h3.H3Connection(quic)
        base = [(b":status", b"200", True)] if is_client else [(b":method", b"GET", True), (b":authority", b"a", True)]
        extra = [pick_header(j) for j in range(nextra)]
        hs = base + extra
        blocked = sx.Bool("qpack_blocked")  # the HEADERS frame references encoder-stream data that arrives later

        def on_header(dec, sid, data):
            if blocked:
                raise hm.StreamBlocked()
            return [(n, v) for n, v, _ in hs]

        hm.IdealQpack.on_header = staticmethod(on_header)
        hm.IdealQpack.on_resume = staticmethod(lambda dec, sid: [(n, v) for n, v, _ in hs])
        hm.IdealQpack.on_encoder_data = staticmethod(lambda dec, data: [0])
        B = sx.BufferClass()

        def frame(t, payload):
            b = B(capacity=16 + sx.length_of(payload))
            b.push_uint_var(t)
            b.push_uint_var(sx.length_of(payload))
            b.push_bytes(payload)
            return b.data

        n1 = sx.Int("n1", 0, 3)
        n2 = sx.Int("n2", 0, 3)
        body1 = sx.Bytes("b1", 3)
        sx.assume(sx.length_of(body1) == n1)
        fin_with_headers = sx.Bool("fin_with_headers")
        events = []
        events += conn.handle_event(StreamDataReceived(data=frame(1, b"\x00\x00"), end_stream=fin_with_headers, stream_id=0))
        total = 0
        if not fin_with_headers and quic.closed is None:
            # how the end of the stream arrives: alone, on the DATA frame, or on a DATA frame followed by a
            # frame of an unknown (reserved / grease) type in the same delivery
            if sx.Bool("send_data"):
                shape = sx.concretize(sx.Int("fin_shape", 0, 2))
                piece = frame(0, body1)
                if shape == 2:
                    piece = piece + frame(0x21, b"")
                events += conn.handle_event(StreamDataReceived(data=piece, end_stream=shape > 0, stream_id=0))
                total = n1
                if shape == 0:
                    events += conn.handle_event(StreamDataReceived(data=b"", end_stream=True, stream_id=0))
            else:
                tail = frame(0x21, b"") if sx.Bool("fin_on_unknown_frame") else b""
                events += conn.handle_event(StreamDataReceived(data=tail, end_stream=True, stream_id=0))
        if blocked and quic.closed is None:
            peer_uni = 3 if is_client else 2
            events += conn.handle_event(StreamDataReceived(data=b"\x02\x00", end_stream=False, stream_id=peer_uni))
        bad = ref_must_reject(hs, kind)
        got_headers = [e for e in events if isinstance(e, HeadersReceived)]
        if bad:
            sx.check(not got_headers and quic.closed is not None and quic.closed[0] == h3.ErrorCode.H3_MESSAGE_ERROR, "malformed headers produced an event or did not close with H3_MESSAGE_ERROR")
            return
        ended = [e for e in events if getattr(e, "stream_ended", False)]
        cl = None
        cls = [v for n, v, const in hs if const and n == b"content-length"]
        if len(cls) == 1 and cls[0] in (b"3", b"0"):
            cl = int(cls[0])
        if cl is not None and ended:
            sx.check(total == cl, "stream ended although content-length differs from the delivered body")
        if cl is not None and quic.closed is None and not ended:
            sx.fail("no end-of-stream event and no close")
        sx.reached()

    return run


def obligations(tier):
    T = tier == "thorough"
    P = "aioquic.h3.connection."
    obs = [
        Ob("C15.name", name_check(8 if T else 5), shims, [P + "validate_header_name"], bounds="every header name of <= %d bytes (all byte values)" % (8 if T else 5), budget_s=1500 if T else 240),
        Ob("C15.value", value_check(8 if T else 5), shims, [P + "validate_header_value"], bounds="every header value of <= %d bytes" % (8 if T else 5), budget_s=1500 if T else 240),
    ]
    for kind in KINDS:
        k = 3 if T else 2
        obs.append(Ob("C15.headers.%s" % kind, headers_check(kind, k), shims, [P + "validate_headers", P + "validate_%s" % {"request": "request_headers", "response": "response_headers", "trailers": "trailers", "push": "push_promise_headers"}[kind], P + "validate_header_name", P + "validate_header_value"], bounds="every list of %d headers, each either one of %d (name, value) constants (all pseudo-headers, content-length/transfer-encoding spellings) or a fully symbolic name of 1-2 bytes with a symbolic value of <= 2 bytes" % (k, sum(len(v) for _, v in MENU)), budget_s=3000 if T else 280, max_decisions=900))
    for role in ("client", "server"):
        obs.append(Ob("C15.stream.%s" % role, stream_check(role, 2 if T else 1), shims, [P + "H3Connection.handle_event", P + "H3Connection._receive_request_or_push_data", P + "H3Connection._handle_request_or_push_frame", P + "H3Connection._check_content_length", P + "validate_headers"], bounds="required pseudo-headers plus 1 (quick) / 2 (thorough) arbitrary headers (menu or symbolic), FIN on HEADERS or after an optional DATA frame of 0-3 bytes; the end of the stream arrives alone, on the DATA frame, on a DATA frame followed by an unknown-type frame, or on a lone unknown-type frame", stubs=["pylsqpack -> ideal QPACK", "QuicConnection -> recorder"], env=hm.patched_qpack, budget_s=1500 if T else 280, max_decisions=900))
    return obs
