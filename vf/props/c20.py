"""C20 -- logging is observationally transparent (self-composition).

Two copies of one endpoint, identical except that one has a qlog trace (and a secrets log) attached
and the other has none, receive the same symbolic datagram and are then driven through the same
transmit / timer / event calls.  z3 must prove, on every path, that they raise the same exceptions,
report the same events, emit byte-identical datagrams, arm the same timer and end in equal states
(deep comparison of the object graphs, logger objects excluded).  The logged copy's trace must hold
one packet_received record per packet processed and one packet_sent record per packet built, and
every logged value must be JSON-representable.

C20.frame.*  connected endpoints with stream history: one 1-RTT packet with any frame (C05's frame grammar)
C20.hdr.*    endpoints in first-flight / connected / closing states: arbitrary long- and short-header datagrams
             (Version Negotiation, Retry, undecryptable and unavailable-key packets included)
C20.h3.*     H3Connection over a recording QUIC stub: arbitrary frames on request/control/push streams
"""
from __future__ import annotations

import collections
import contextlib
import enum
import io

from .. import connmodel as cm
from .. import symx as sx
from ..runner import Ob
from . import c05

ASSUMPTIONS = c05.ASSUMPTIONS[:1] + [
    "step-inductive: the two copies start from equal states (one endpoint, cloned); equality of the states after the step is proved, so histories of any length follow by induction over receive/transmit/timer steps",
    "replay of a counterexample uses the same transparent packet protection and TLS stub as the exploration (two copies of one real connection cannot share real keys otherwise); the code compared -- connection.py, recovery.py, packet_builder.py, logger.py -- is the real one in both",
    "json.dumps of the whole trace is run in replay mode and by the reachability witness on concrete values; during exploration every logged leaf must be a str/int/float/bool/None (or its symbolic proxy)",
]

SKIP_ATTRS = {"quic_logger_frames", "_quic_logger", "_logger", "_configuration", "quic_logger", "_QuicConnection__logger", "secrets_log_file"}


DEBUG = False


class Diff(Exception):
    pass


def _leaf_same(a, b, path):
    if isinstance(a, (sx.SymBytes, bytes, bytearray)) and isinstance(b, (sx.SymBytes, bytes, bytearray)):
        sx.check_bytes_eq(a, b, "state differs at %s" % path)
        return
    if a is None or b is None:
        sx.check(a is None and b is None, "state differs at %s (None vs value)" % path)
        return
    sx.check(a == b, "state differs at %s" % path)


def same_state(a, b, path="conn", seen=None, depth=0):
    """deep structural comparison of two object graphs (logger objects excluded)"""
    seen = seen if seen is not None else set()
    if isinstance(a, (int, float, str, bool, type(None), sx.SymInt, sx.SymReal, sx.SymBool, sx.SymBytes, bytes, bytearray, enum.Enum)):
        _leaf_same(a, b, path)
        return
    key = (id(a), id(b))
    if key in seen or depth > 12:
        return
    seen.add(key)
    if callable(a) and not hasattr(a, "__dict__"):
        return
    if isinstance(a, (list, tuple, collections.deque)):
        sx.check(isinstance(b, (list, tuple, collections.deque)) and len(a) == len(b), "state differs at %s (length %d vs %s)" % (path, len(a), len(b) if hasattr(b, "__len__") else "?"))
        for i, (x, y) in enumerate(zip(a, b)):
            same_state(x, y, "%s[%d]" % (path, i), seen, depth + 1)
        return
    if isinstance(a, (set, frozenset)):
        if all(isinstance(x, (int, str, bytes)) for x in a) and all(isinstance(x, (int, str, bytes)) for x in b):
            sx.check(a == b, "state differs at %s (set)" % path)
        else:
            sx.check(len(a) == len(b), "state differs at %s (set size)" % path)
        return
    if isinstance(a, dict):
        ka, kb = list(a.keys()), list(b.keys())
        sx.check(len(ka) == len(kb), "state differs at %s (dict size %d vs %d)" % (path, len(ka), len(kb)))
        for x, y in zip(ka, kb):
            if isinstance(x, (int, str, bytes, enum.Enum, sx.SymInt)):
                sx.check(x == y, "state differs at %s (dict keys)" % path)
            same_state(a[x], b[y], "%s[%r]" % (path, x if not isinstance(x, sx.SymInt) else "sym"), seen, depth + 1)
        return
    if type(a) is not type(b):
        sx.check(False, "state differs at %s (type %s vs %s)" % (path, type(a).__name__, type(b).__name__))
        return
    names = []
    if hasattr(a, "__dict__"):
        names += list(a.__dict__)
    for klass in type(a).__mro__:
        names += list(getattr(klass, "__slots__", ()))
    if not names:
        return
    if type(a).__module__.startswith(("logging", "z3", "threading", "_io", "io")) or type(a).__name__ in ("QuicLoggerTrace", "QuicLogger", "QuicFileLogger", "function", "method", "partial"):
        return
    for n in names:
        if n in SKIP_ATTRS or n.startswith("__"):
            continue
        if not hasattr(a, n):
            sx.check(not hasattr(b, n), "state differs at %s.%s (attribute missing)" % (path, n))
            continue
        sx.check(hasattr(b, n), "state differs at %s.%s (attribute missing)" % (path, n))
        if hasattr(b, n):
            same_state(getattr(a, n), getattr(b, n), "%s.%s" % (path, n), seen, depth + 1)


def jsonable(x, path="event"):
    if isinstance(x, (str, int, float, bool, type(None), sx.SymInt, sx.SymReal, sx.SymBool, sx.SymStr)):
        return
    if isinstance(x, dict):
        for k, v in x.items():
            sx.check(isinstance(k, str), "qlog: non-string key %r at %s" % (k, path))
            jsonable(v, path + "." + str(k))
        return
    if isinstance(x, (list, tuple, collections.deque)):
        for i, v in enumerate(x):
            jsonable(v, "%s[%d]" % (path, i))
        return
    sx.check(False, "qlog: value of type %s at %s is not JSON-serialisable" % (type(x).__name__, path))


class Outcome:
    def __init__(self):
        self.steps = []


def drive(conn, stimulus, packets_counter):
    """stimulus, then transmit/timer/events; everything observable is recorded"""
    from aioquic.quic.events import ConnectionTerminated

    out = []
    DET.n = 1000  # both copies draw the same "random" connection IDs and tokens
    try:
        stimulus(conn)
        out.append(("recv", None))
    except Exception as exc:
        out.append(("recv", type(exc).__name__))
        if DEBUG:
            import traceback

            traceback.print_exc()
    now = 1.05
    terminated = False
    for step in range(3):
        try:
            dg = conn.datagrams_to_send(now=now)
            out.append(("send", [d for d, _ in dg]))
        except Exception as exc:
            out.append(("send", type(exc).__name__))
        try:
            t = conn.get_timer()
        except Exception as exc:
            t = type(exc).__name__
        out.append(("timer", t))
        evs = []
        while True:
            ev = conn.next_event()
            if ev is None:
                break
            evs.append(ev)
            if isinstance(ev, ConnectionTerminated):
                terminated = True
        out.append(("events", evs))
        if terminated or t is None or isinstance(t, str):
            break
        now = t
        try:
            conn.handle_timer(now=now)
            out.append(("timer_fired", None))
        except Exception as exc:
            out.append(("timer_fired", type(exc).__name__))
    return out


def compare(outA, outB, A, B, label="conn"):
    sx.check(len(outA) == len(outB), "with logging the endpoint goes through %d driver steps, without %d" % (len(outA), len(outB)))
    for i, ((ka, va), (kb, vb)) in enumerate(zip(outA, outB)):
        sx.check(ka == kb, "driver step kinds differ at %d" % i)
        if ka in ("recv", "timer_fired"):
            sx.check(va == vb, "%s raised %s with logging and %s without" % ({"recv": "receive_datagram", "timer_fired": "handle_timer"}[ka], va, vb))
        elif ka == "send":
            if isinstance(va, str) or isinstance(vb, str):
                sx.check(va == vb, "datagrams_to_send raised %s with logging and %s without" % (va, vb))
                continue
            sx.check(len(va) == len(vb), "%d datagrams sent with logging, %d without" % (len(va), len(vb)))
            for x, y in zip(va, vb):
                sx.check_bytes_eq(x, y, "datagram sent with logging differs from the one sent without")
        elif ka == "timer":
            if va is None or vb is None or isinstance(va, str) or isinstance(vb, str):
                sx.check((va is None and vb is None) or (isinstance(va, str) and va == vb), "timer with logging %r, without %r" % (va, vb))
            else:
                sx.check(va == vb, "timer differs with logging")
        elif ka == "events":
            sx.check([type(e).__name__ for e in va] == [type(e).__name__ for e in vb], "events with logging %s, without %s" % ([type(e).__name__ for e in va], [type(e).__name__ for e in vb]))
            for x, y in zip(va, vb):
                sx.check_same(x, y, "event %s differs with logging" % type(x).__name__)
    same_state(A, B, label)


class PacketCounter:
    """counts packets the connection processes and builds (independent of the logger)"""

    def __init__(self):
        self.received = 0
        self.sent = 0


def _own_logger(conn):
    """the clone shares its configuration with the template: give it a QuicLogger that owns the cloned trace"""
    import copy

    from aioquic.quic.logger import QuicLogger

    if conn._quic_logger is None:
        return conn
    cfg = copy.copy(conn._configuration)
    cfg.quic_logger = QuicLogger()
    cfg.quic_logger._traces.append(conn._quic_logger)
    cfg.secrets_log_file = io.StringIO()
    conn._configuration = cfg
    return conn


DET = cm.DET


def _hexdump(data):
    if isinstance(data, sx.SymBytes):
        return data.hex()
    import binascii

    return binascii.hexlify(data).decode("ascii")


def frame_shims():
    import aioquic.quic.logger as lg

    d = cm.conn_shims(extra=[("os", DET)])
    d[lg] = [("hexdump", _hexdump), "len", "isinstance"]
    return d


@contextlib.contextmanager
def frame_env():
    if sx.E.mode == "sym":
        yield
        return
    import aioquic.quic.connection as qc

    saved = qc.os
    qc.os = DET
    try:
        yield
    finally:
        qc.os = saved


def _strip_logger(conn):
    import copy

    cfg = copy.copy(conn._configuration)
    cfg.quic_logger = None
    cfg.secrets_log_file = None
    conn._configuration = cfg
    conn._quic_logger = None
    conn._loss._quic_logger = None
    return conn


def _trace_checks(conn, n_events_before, label):
    tr = conn._quic_logger
    if tr is None:
        return  # trace ended with the connection
    evs = list(tr._events)[n_events_before:]
    for e in evs:
        jsonable(e)
    if sx.E.mode == "replay":
        import json

        try:
            json.dumps(tr.to_dict())
        except Exception as exc:
            sx.check(False, "json.dumps of the qlog trace failed: %r" % exc)


def _logged_cfg():
    from aioquic.quic.logger import QuicLogger

    return {"quic_logger": QuicLogger(), "secrets_log_file": io.StringIO()}


def busy_logged(role):
    def build():
        client, server = cm.make_pair(client_opts=_logged_cfg(), server_opts=_logged_cfg())
        client.send_stream_data(0, b"hello", end_stream=True)
        client.send_stream_data(8, b"open", end_stream=False)
        client.send_stream_data(2, b"uni", end_stream=True)
        server.send_stream_data(1, b"srv", end_stream=False)
        server.send_stream_data(3, b"srvuni", end_stream=False)
        for t in (0.2, 0.3):
            cm.transfer(client, server, t)
            cm.transfer(server, client, t)
        server.send_stream_data(0, b"world", end_stream=True)
        client.send_stream_data(4, b"x" * 10, end_stream=True)
        for t in (0.4, 0.5, 0.6):
            cm.transfer(client, server, t)
            cm.transfer(server, client, t)
        cm.drain_events(client)
        cm.drain_events(server)
        conn = client if role == "client" else server
        assert conn._quic_logger is not None
        return cm.symbolize(conn, keep_logger=True)

    return build


def _count_log(conn, n0, name):
    tr = conn._quic_logger
    if tr is None:
        return None
    return sum(1 for e in list(tr._events)[n0:] if e.get("name") == name)


def frame_ob(role, ftype, repeat=False):
    name = "c20_busy_%s" % role

    def prep():
        c05._quiet()
        cm.prepare(name, busy_logged(role))

    def run():
        from aioquic import tls

        c05._quiet()
        cm.FakeTLS.honor_replay = True
        tmpl = cm.prepare(name, busy_logged(role))
        A = cm.Peer(_own_logger(cm.clone(tmpl)), model=True)
        B = cm.Peer(_strip_logger(cm.clone(tmpl)), model=True)
        sx.check(A.conn._quic_logger is not None and B.conn._quic_logger is None, "harness: twin set-up")
        n0 = len(A.conn._quic_logger._events)
        sx.register_keys(range(0x40))
        sx.register_keys(list(A.conn._streams) + list(A.conn._streams_finished) + [s + 4 * k for s in (0, 1, 2, 3) for k in range(3)])
        Bf = sx.BufferClass()
        buf = Bf(capacity=400)
        c05.build_frame(buf, ftype, "a_")
        if repeat:
            c05.build_frame(buf, ftype, "b_")
        elif sx.Bool("then_ping"):
            buf.push_uint8(0x01)
        payload = buf.data
        n = buf.tell()
        cuts = sorted({n, n - 1}) if not repeat else [n]
        cut = cuts[sx.Choice("cut", len(cuts))]
        pay = payload[:cut]
        dgA = A.datagram(tls.Epoch.ONE_RTT, pay)
        outA = drive(A.conn, lambda c: c.receive_datagram(dgA, A.addr(), now=1.0), None)
        outB = drive(B.conn, lambda c: c.receive_datagram(dgA, B.addr(), now=1.0), None)
        compare(outA, outB, A.conn, B.conn)
        _trace_checks(A.conn, n0, "frame")
        if A.conn._quic_logger is not None:
            sx.check(_count_log(A.conn, n0, "transport:packet_received") == 1, "qlog: %s packet_received records for one received packet" % _count_log(A.conn, n0, "transport:packet_received"))
            sent = sum(len(v) for k, v in outA if k == "send" and not isinstance(v, str))
            logged = _count_log(A.conn, n0, "transport:packet_sent")
            sx.check(logged == sent, "qlog: %s packet_sent records for %d packets sent (one packet per datagram after the handshake)" % (logged, sent))

    return prep, run


def _content_key(*vals):
    import hashlib

    h = hashlib.sha1()
    for v in vals:
        if isinstance(v, sx.SymBytes):
            n = v.length if isinstance(v.length, int) else None
            h.update(b"L%r" % (n,))
            items = v.materialize() if n is not None else None
            for x in items or []:
                h.update((str(x) if isinstance(x, int) else x.sexpr()).encode())
        else:
            h.update(repr(v).encode())
    return h.hexdigest()[:12]


def _twin_retry_tag(packet_without_tag, original_destination_cid, version):
    """ideal AES-GCM tag: 16 arbitrary bytes, the same for equal inputs (both copies must see one tag)"""
    return sx.Bytes("retry_tag!%s" % _content_key(packet_without_tag, original_destination_cid, version), 16, 16)


def hdr_shims():
    import aioquic.quic.logger as lg

    d = _hdr_shims()
    d[lg] = [("hexdump", _hexdump), "len", "isinstance"]
    return d


def _hdr_shims():
    return cm.conn_shims(extra=[("CryptoPair", cm.FakeCryptoPair), ("tls", cm.TlsModuleProxy()), ("get_retry_integrity_tag", _twin_retry_tag), ("SMALLEST_MAX_DATAGRAM_SIZE", 1), ("os", DET)])


@contextlib.contextmanager
def hdr_env():
    """replay runs without the builtin shims but needs the same structural stand-ins"""
    if sx.E.mode == "sym":
        sx.UNIQUE_VIEWS = True
        try:
            yield
        finally:
            sx.UNIQUE_VIEWS = False
        return
    import aioquic.quic.connection as qc

    saved = {n: qc.__dict__[n] for n in ("CryptoPair", "tls", "get_retry_integrity_tag", "os")}
    qc.CryptoPair = cm.FakeCryptoPair
    qc.tls = cm.TlsModuleProxy()
    qc.get_retry_integrity_tag = _twin_retry_tag
    qc.os = DET
    try:
        yield
    finally:
        qc.__dict__.update(saved)


def hdr_ob(state, kind, shard=None):
    role = state.split("_")[0]
    name = "c20_fresh_%s" % role

    def prep():
        c05._quiet()
        if "connected" in state or "closing" in state:
            cm.prepare(name, lambda: cm.symbolize((lambda p: p[0] if role == "client" else p[1])(cm.make_pair(client_opts=_logged_cfg(), server_opts=_logged_cfg())), keep_logger=True))

    def make(logged):
        import os

        from aioquic.quic.configuration import QuicConfiguration
        from aioquic.quic.connection import QuicConnection

        if "connected" in state or "closing" in state:
            tmpl = cm.prepare(name, lambda: cm.symbolize((lambda p: p[0] if role == "client" else p[1])(cm.make_pair(client_opts=_logged_cfg(), server_opts=_logged_cfg())), keep_logger=True))
            conn = cm.clone(tmpl)
            if not logged:
                _strip_logger(conn)
            else:
                _own_logger(conn)
            if "closing" in state:
                conn.close(error_code=0)
                conn.datagrams_to_send(now=0.9)
            return conn
        DET.n = 0
        cfg = QuicConfiguration(is_client=(role == "client"))
        if logged:
            for k, v in _logged_cfg().items():
                setattr(cfg, k, v)
        if role == "server":
            cfg.load_cert_chain(os.path.join(cm.REPO, "tests", "ssl_cert.pem"), os.path.join(cm.REPO, "tests", "ssl_key.pem"))
            conn = QuicConnection(configuration=cfg, original_destination_connection_id=bytes(8))
        else:
            conn = QuicConnection(configuration=cfg)
            if state == "client_firstflight":
                conn.connect(cm.ADDR_S, now=0.0)
                conn.datagrams_to_send(now=0.0)
        return conn

    def run():
        c05._quiet()
        cm.FakeTLS.honor_replay = True
        sx.register_keys([1, 0x6B3343CF, 0])
        sx.register_keys(range(0x40))
        A, B = make(True), make(False)
        sx.check((A._quic_logger is not None or "closing" in state) and B._quic_logger is None, "harness: twin set-up")
        n0 = len(A._quic_logger._events) if A._quic_logger is not None else 0
        if kind == "vn":
            # Version Negotiation: version 0, then 4-byte versions up to the end of the datagram
            dl, sl = 8, [0, 8][sx.Choice("scid_len", 2)]
            nv = 1 + sx.Choice("n_versions", 3)
            m = 7 + dl + sl + 4 * nv
            d = sx.Bytes("d", m, m)
            sx.assume(sx.And(d[0] >= 0x80, d[1] == 0, d[2] == 0, d[3] == 0, d[4] == 0, d[5] == dl, d[6 + dl] == sl))
        elif kind == "long":
            if shard is None:
                dl = [0, 8, 20][sx.Choice("dcid_len", 3)]
                sl = [0, 8][sx.Choice("scid_len", 2)]
            else:
                dl, sl = shard[0], shard[1]
            m = 7 + dl + sl + 25
            d = sx.Bytes("d", m, m)
            sx.assume(sx.And(d[0] >= 0x80, d[5] == dl, d[6 + dl] == sl))
            if shard is not None and shard[2] is not None:
                # what the frames inside do is the subject of C20.frame.*: keep the payload to PADDING/PING
                sx.assume(sx.And(*[d[i] <= 1 for i in range(7 + dl + sl + 3, m)]))
                # long packet type bits (the version decides what they mean; version 0 is Version Negotiation)
                sx.assume(sx.And(d[0] >= 0x80 + 16 * shard[2] + (64 if shard[3] else 0), d[0] < 0x80 + 16 * shard[2] + (64 if shard[3] else 0) + 16))
            if sx.Bool("truncated"):
                d = d[: m - 20]
        else:
            m = 29
            d = sx.Bytes("d", m, m)
            sx.assume(d[0] < 0x80)
        addr = cm.ADDR_C if role == "server" else cm.ADDR_S
        outA = drive(A, lambda c: c.receive_datagram(d, addr, now=1.0), None)
        outB = drive(B, lambda c: c.receive_datagram(d, addr, now=1.0), None)
        compare(outA, outB, A, B)
        _trace_checks(A, n0, "hdr")

    return prep, run


def _hdr_any_type(state, dl, sl):
    prep, _ = hdr_ob(state, "long")
    runs = {}

    def run():
        # dl/sl fixed, first byte free
        return hdr_ob(state, "long", (dl, sl, None, None))[1]()

    return prep, run


# ------------------------------------------------------------------ HTTP/3 layer
def _h3_qpack_twin(is_client):
    """ideal QPACK whose verdicts are functions of (decoder instance order, stream, call number): the two
    copies of the connection get the same verdicts and the same (partly symbolic) header lists"""
    from .. import h3model as hm

    hm.IdealQpack.reset()
    hm.IdealQpack.per_instance_tokens = True
    inst = {}

    def key(obj):
        return inst.setdefault(id(obj), {"n": {}, "blocked": []})

    def name(obj, tag, sid):
        st = key(obj)
        st["n"][(tag, sid)] = st["n"].get((tag, sid), 0) + 1
        return "%s.s%s.%d" % (tag, sid, st["n"][(tag, sid)])

    def headers():
        base = [(b":status", b"200")] if is_client else [(b":method", b"GET"), (b":scheme", b"https"), (b":authority", b"a"), (b":path", b"/")]
        return base + [(b"x", sx.Bytes("header_value", 2, 2))]

    def on_header(dec, sid, data):
        c = sx.Choice(name(dec, "qh", sid), 3)
        if c == 1:
            key(dec)["blocked"].append(sid)
            raise hm.StreamBlocked()
        if c == 2:
            raise hm.DecompressionFailed()
        return headers()

    def on_resume(dec, sid):
        b = key(dec)["blocked"]
        if sid in b:
            b.remove(sid)
        if sx.Bool(name(dec, "qr_fail", sid)):
            raise hm.DecompressionFailed()
        return headers()

    def on_encoder_data(dec, data):
        if sx.Bool(name(dec, "qe_fail", 0)):
            raise hm.EncoderStreamError()
        return [sid for sid in list(key(dec)["blocked"]) if sx.Bool(name(dec, "qe_unblock", sid))]

    def on_decoder_data(enc, data):
        if sx.Bool(name(enc, "qd_fail", 0)):
            raise hm.DecoderStreamError()

    hm.IdealQpack.on_header = staticmethod(on_header)
    hm.IdealQpack.on_resume = staticmethod(on_resume)
    hm.IdealQpack.on_encoder_data = staticmethod(on_encoder_data)
    hm.IdealQpack.on_decoder_data = staticmethod(on_decoder_data)


def _h3_pair(is_client):
    import aioquic.h3.connection as h3
    from aioquic.quic.logger import QuicLogger

    from .. import h3model as hm

    tr = QuicLogger().start_trace(is_client=is_client, odcid=b"\x01" * 8)
    qa, qb = hm.FakeQuic(is_client, logger=tr), hm.FakeQuic(is_client)
    return h3.H3Connection(qa), qa, h3.H3Connection(qb), qb, tr


def _h3_compare(outA, outB, qa, qb, A, B, what):
    sx.check(outA[0] == outB[0], "%s raised %s with logging and %s without" % (what, outA[0], outB[0]))
    if outA[0] is None and outB[0] is None:
        sx.check_same(outA[1], outB[1], "HTTP events differ with logging")
    sx.check(len(qa.sent) == len(qb.sent), "%d stream writes with logging, %d without" % (len(qa.sent), len(qb.sent)))
    for x, y in zip(qa.sent, qb.sent):
        sx.check(x[0] == y[0] and bool(x[2]) == bool(y[2]), "stream write differs with logging (stream id / end flag)")
        sx.check_bytes_eq(x[1], y[1], "stream write differs with logging (data)")
    sx.check((qa.closed is None) == (qb.closed is None) and (qa.closed is None or qa.closed[0] == qb.closed[0]), "connection close differs with logging: %r vs %r" % (qa.closed, qb.closed))
    same_state(A, B, "h3")


def h3_recv(role, stream_class, maxlen):
    def run():
        from aioquic.quic.events import StreamDataReceived

        is_client = role == "client"
        _h3_qpack_twin(is_client)
        A, qa, B, qb, tr = _h3_pair(is_client)
        peer_uni = [3, 7, 11] if is_client else [2, 6, 10]
        sid = 0 if stream_class == "request" else peer_uni[0]
        data = sx.Bytes("d", maxlen)
        fin = sx.Bool("fin")
        evs = [StreamDataReceived(data=data, end_stream=fin, stream_id=sid), StreamDataReceived(data=b"\x02\x00", end_stream=False, stream_id=peer_uni[2])]

        def go(conn):
            out = []
            try:
                for ev in evs:
                    out += conn.handle_event(ev)
            except Exception as exc:
                return (type(exc).__name__, out)
            return (None, out)

        oa, ob = go(A), go(B)
        _h3_compare(oa, ob, qa, qb, A, B, "handle_event")
        for e in tr._events:
            jsonable(e)

    return run


def h3_send(role):
    def run():
        is_client = role == "client"
        _h3_qpack_twin(is_client)
        A, qa, B, qb, tr = _h3_pair(is_client)
        hv = sx.Bytes("sent_header_value", 2, 2)
        hdrs = ([(b":method", b"GET"), (b":scheme", b"https"), (b":authority", b"a"), (b":path", b"/")] if is_client else [(b":status", b"200")]) + [(b"x", hv)]
        body = sx.Bytes("body", 3)
        end = sx.Bool("end_stream")
        push = (not is_client) and sx.Bool("push")

        def go(conn, q):
            try:
                sid = q.get_next_available_stream_id() if is_client else 0
                if not is_client:
                    from aioquic.quic.events import StreamDataReceived

                    conn.handle_event(StreamDataReceived(data=b"\x01\x02\x00\x00", end_stream=False, stream_id=0))
                conn.send_headers(sid, list(hdrs), end_stream=False)
                conn.send_data(sid, body, end_stream=end)
                if push:
                    conn._max_push_id = 8
                    conn.send_push_promise(0, [(b":method", b"GET"), (b":scheme", b"https"), (b":authority", b"a"), (b":path", b"/p"), (b"x", hv)])
            except Exception as exc:
                return (type(exc).__name__, [])
            return (None, [])

        oa, ob = go(A, qa), go(B, qb)
        _h3_compare(oa, ob, qa, qb, A, B, "send_headers/send_data/send_push_promise")
        for e in tr._events:
            jsonable(e)

    return run


def h3_shims():
    import aioquic.quic.logger as lg

    from . import c16

    d = c16.shims()
    d[lg] = [("hexdump", _hexdump), "len", "isinstance"]
    return d


def obligations(tier):
    T = tier == "thorough"
    Q = "aioquic.quic.connection.QuicConnection."
    enc = [Q + "receive_datagram", Q + "_payload_received", Q + "_handle_*_frame", Q + "datagrams_to_send", Q + "get_timer", Q + "handle_timer", Q + "next_event", Q + "_receive_version_negotiation_packet", Q + "_receive_retry_packet", Q + "_log_key_updated/_update_traffic_key", "aioquic.quic.recovery.QuicPacketRecovery (log_metrics sites)", "aioquic.quic.packet_builder.QuicPacketBuilder", "aioquic.quic.logger.QuicLoggerTrace.encode_* / log_event"]
    obs = []
    stubs = ["CryptoPair -> transparent (exploration and replay)", "tls.Context -> nondeterministic stub", "os.urandom -> fixed stream (both copies draw equal IDs)"]
    for role in ("client", "server"):
        for ft in c05.FRAME_TYPES:
            for rep in ([False, True] if (T and ft in c05.REPEAT and ft not in c05.HEAVY_TWICE) else [False]):
                prep, run = frame_ob(role, ft, rep)
                obs.append(Ob("C20.frame.%s.0x%02x%s" % (role, ft, ".twice" if rep else ""), run, frame_shims, enc, bounds="two copies (qlog+secrets log on / off) of a connected %s with stream history receive the same 1-RTT packet with one frame of type 0x%02x (C05 grammar: varints over [0,2^62), byte fields of length 0/2, honest / too long / huge declared lengths, cut at the end or one byte short), then 3 rounds of transmit/timer/events" % (role, ft), prepare=prep, env=frame_env, budget_s=1500 if T else 400, max_decisions=2500, stubs=stubs))
    from .. import h3model as hm

    H = "aioquic.h3.connection.H3Connection."
    h3enc = [H + "handle_event", H + "_handle_request_or_push_frame", H + "_handle_control_frame", H + "send_headers", H + "send_data", H + "send_push_promise", "aioquic.quic.logger.QuicLoggerTrace.encode_http3_*"]
    for role in ("client", "server"):
        for cls in ("request", "uni"):
            n = 7 if T else 5
            obs.append(Ob("C20.h3.recv.%s.%s" % (role, cls), h3_recv(role, cls, n), h3_shims, h3enc, bounds="two H3Connection copies (qlog on / off) over recording QUIC stubs receive the same symbolic bytes (<= %d, with/without FIN) on a %s stream, then QPACK encoder-stream data; ideal QPACK returning header lists with a symbolic 2-byte value, the same verdicts for both copies" % (n, cls), env=hm.patched_qpack, budget_s=1500 if T else 400, max_decisions=1500, stubs=["pylsqpack -> ideal QPACK (verdicts a function of stream and call number)", "QuicConnection -> recorder"]))
        obs.append(Ob("C20.h3.send.%s" % role, h3_send(role), h3_shims, h3enc, bounds="two copies send headers with a symbolic 2-byte value, a symbolic body of <= 3 bytes (with/without end of stream) and, as server, a push promise", env=hm.patched_qpack, budget_s=400, max_decisions=1500, stubs=["pylsqpack -> ideal QPACK", "QuicConnection -> recorder"]))
    hb = "two copies (logging on / off) of a %s endpoint receive the same arbitrary %s-header datagram (%s), then 3 rounds of transmit/timer/events"
    hstubs = stubs + ["get_retry_integrity_tag -> arbitrary tag, equal for equal inputs", "SMALLEST_MAX_DATAGRAM_SIZE -> 1"]
    states = ["client_firstflight", "server_fresh", "client_connected", "server_connected", "client_closing", "server_closing"]
    for state in ("client_firstflight", "client_connected"):
        prep, run = hdr_ob(state, "vn")
        obs.append(Ob("C20.hdr.%s.vn" % state, run, hdr_shims, enc, bounds=hb % (state.replace("_", " "), "long", "Version Negotiation: version 0, own destination ID length, source ID length 0/8, 1-3 symbolic versions, every other byte symbolic"), prepare=prep, env=hdr_env, budget_s=2400 if T else 500, max_decisions=2500, stubs=hstubs))
    for state in states:
        heavy = state in ("client_connected", "server_connected")
        if heavy and not T:
            continue
        prep, run = hdr_ob(state, "short")
        obs.append(Ob("C20.hdr.%s.short" % state, run, hdr_shims, enc, bounds=hb % (state.replace("_", " "), "short", "29 symbolic bytes"), prepare=prep, env=hdr_env, budget_s=2400 if T else 500, max_decisions=2500, stubs=hstubs))
        own = 8
        for dl in (0, 8, 20):
            for sl in (0, 8):
                if dl != own and state != "server_fresh":
                    shards = [(dl, sl, None, None)]
                else:
                    shards = [(dl, sl, t, fixed) for t in range(4) for fixed in (0, 1)]
                for sh in shards:
                    if sh[2] is None:
                        prep, run = hdr_ob(state, "long", None) if False else hdr_ob(state, "long", (dl, sl, 0, 0))
                        # foreign-length destination IDs: all type bits at once
                        prep, run = _hdr_any_type(state, dl, sl)
                        tag = "dcid%d.scid%d" % (dl, sl)
                    else:
                        prep, run = hdr_ob(state, "long", sh)
                        tag = "dcid%d.scid%d.type%d%s" % (dl, sl, sh[2], "f" if sh[3] else "")
                    obs.append(Ob("C20.hdr.%s.long.%s" % (state, tag), run, hdr_shims, enc, bounds=hb % (state.replace("_", " "), "long", "destination/source ID lengths %d/%d%s, every other byte symbolic, optionally truncated" % (dl, sl, "" if sh[2] is None else ", first byte 0x%02x-0x%02x, packet number and payload bytes in {0,1} (PADDING/PING)" % (0x80 + 16 * sh[2] + 64 * sh[3], 0x8F + 16 * sh[2] + 64 * sh[3]))), prepare=prep, env=hdr_env, budget_s=2400 if T else 500, max_decisions=2500, stubs=hstubs))
    return obs
