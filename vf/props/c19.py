"""C19 -- the asyncio adapter stays consistent under any event-loop schedule.

C19.sched.*   real QuicConnectionProtocol on a virtual loop (vf/aiomodel.py) above a nondeterministic QUIC
              stub: the solver chooses which datagram, timer, deferred callback or application call runs
              next and what events the engine reports; timer instants are symbolic reals.  At every quiescent
              point: nothing queued by the application is left without a transmit, the armed timer is exactly
              the engine's timer, waiters complete exactly once and only for their cause, stream readers hold
              the delivered chunks in order followed by EOF, no callback raised.
C19.route.*   real QuicServer (+ real QuicRetryTokenHandler over an ideal public-key encryption) with symbolic
              packet headers: a datagram reaches the connection that issued its destination ID, connection
              state is created only as the address-validation rule allows, every issued-and-not-retired ID of
              a live connection routes to it, nothing routes to a terminated one.
"""
from __future__ import annotations

import asyncio
import contextlib

from .. import aiomodel as am
from .. import symx as sx
from ..runner import Ob

ASSUMPTIONS = [
    "the QUIC engine below the adapter is the nondeterministic stub FakeQuic: HandshakeCompleted at most once, no event after ConnectionTerminated and no timer then (C09), PingAcknowledged only for a uid passed to send_ping and once, ConnectionIdRetired only for an ID issued and not yet retired, issued IDs pairwise distinct (random 8-byte values)",
    "schedules: every order of <= N steps over {datagram arrival, timer expiry, application call}, with a datagram or timer optionally overtaking each deferred callback; the kernel, sockets and real wall-clock time are outside (virtual loop)",
    "end-to-end delivery of stream bytes between two adapters is the composition of this adapter-level claim with C01/C10 (engine-level delivery); it is not re-proved here",
    "packet header parsing and Retry/Version Negotiation encoding are C06/C02: here pull_quic_header returns a symbolic header and the encoders are recorders; RSA-OAEP of the retry token is an ideal encryption (a token decrypts only if this server produced it)",
]

PROTO = "aioquic.asyncio.protocol.QuicConnectionProtocol."
SERVER = "aioquic.asyncio.server.QuicServer."


def shims():
    import aioquic.asyncio.protocol as pr

    return {pr: ["max", "isinstance"]}


def route_shims():
    import aioquic.asyncio.protocol as pr
    import aioquic.quic.retry as rt
    import aioquic.tls as tls

    from ..twinbuf import TwinBuffer

    return {pr: ["max", "isinstance"], rt: ["bytes", "len", ("Buffer", TwinBuffer)], tls: ["int", "len", "bytes", "range", "isinstance"]}


def _quiet():
    import logging

    logging.disable(logging.CRITICAL)


# ------------------------------------------------------------------ schedules over one protocol
def _drain(loop, inject, budget):
    """run the ready queue; before each deferred callback the solver may let I/O or a timer overtake it"""
    n = 0
    while loop.ready:
        n += 1
        if n > 40:
            raise AssertionError("ready queue does not drain")
        if budget[0] > 0 and sx.Bool("overtake%d" % budget[1]):
            budget[0] -= 1
            budget[1] += 1
            inject()
            continue
        budget[1] += 1
        loop.run_handle(loop.ready.popleft())


def sched(max_steps, overtakes, actions, kinds, max_events=1, timer_mode="fixed", first=None):
    def run():
        _quiet()
        from aioquic.asyncio.protocol import QuicConnectionProtocol

        loop = am.FakeLoop()
        with am.running(loop):
            quic = am.FakeQuic("q", kinds=kinds, max_events=max_events, timer_mode=timer_mode)
            handed = []
            proto = QuicConnectionProtocol(quic, stream_handler=lambda r, w: handed.append((r, w)))
            transport = am.FakeTransport()
            proto.connection_made(transport)
            escaped = []

            def call(fn, *a):
                try:
                    return fn(*a)
                except Exception as exc:  # an adapter entry point must not raise
                    escaped.append("%s: %r" % (getattr(fn, "__name__", fn), exc))

            def datagram():
                call(proto.datagram_received, am.Datagram(1200), ("peer", 1))

            def timer():
                act = loop.active_timers()
                if act:
                    loop.fire_timer(act[0])
                else:
                    datagram()

            def inject():
                (datagram if sx.Bool("overtaken_by_datagram%d" % budget[1]) else timer)()

            budget = [overtakes, 0]
            call(proto.connect, ("peer", 1))
            tasks = {"connected": loop.create_task(proto.wait_connected())}
            writers = []
            written = []
            n_ping = n_write = 0
            closed_called = False

            def invariants(where):
                sx.check(not escaped and not loop.errors, "%s: exception in the adapter: %s" % (where, (escaped + [repr(e.get("exception")) for e in loop.errors])[:2]))
                sx.check(not quic.unsent, "%s: the application queued data (write/ping/close) but no transmit ran before the loop went idle" % where)
                act = loop.active_timers()
                if quic.timer is None:
                    sx.check(len(act) == 0, "%s: a timer is armed although the connection has none" % where)
                else:
                    sx.check(len(act) == 1, "%s: %d timers armed for a connection whose timer is set" % (where, len(act)))
                    if len(act) == 1:
                        sx.check(act[0].when() == quic.timer, "%s: the armed timer is not the connection's timer" % where)
                term = quic.terminated and not quic.events
                c = tasks["connected"]
                if c.done():
                    sx.check(quic.handshake_done or term, "%s: wait_connected() finished before HandshakeCompleted or termination" % where)
                    if c.exception() is None:
                        sx.check(quic.handshake_done, "wait_connected() succeeded without a handshake")
                    else:
                        sx.check(isinstance(c.exception(), ConnectionError), "wait_connected() failed with %r" % c.exception())
                for name, t in tasks.items():
                    if name.startswith("ping"):
                        k = int(name[4:]) - 1
                        ack = k in quic.acked
                        if t.done():
                            sx.check(ack or term, "%s: %s finished without acknowledgement or termination" % (where, name))
                            if t.exception() is not None:
                                sx.check(isinstance(t.exception(), ConnectionError) and term, "%s failed with %r" % (name, t.exception()))
                        else:
                            sx.check(not ack and not term, "%s: %s still pending after its %s" % (where, name, "acknowledgement" if ack else "connection terminated"))
                    if name == "closed":
                        sx.check(t.done() == term, "%s: wait_closed() %s" % (where, "returned before termination" if t.done() else "still pending after termination"))
                if term:
                    sx.check(c.done(), "%s: wait_connected() still pending after termination" % where)
                # stream readers: chunks in order, then EOF
                for sid in {s for s, _, _ in quic.chunks_in}:
                    rd = proto._stream_readers.get(sid)
                    sx.check(rd is not None and any(r is rd for r, _ in handed), "%s: no reader handed to the stream handler for stream %d" % (where, sid))
                    if rd is None:
                        continue
                    want = b"".join(d for s, d, _ in quic.chunks_in if s == sid)
                    sx.check(bytes(rd._buffer) == want, "%s: reader of stream %d holds %r, delivered %r" % (where, sid, bytes(rd._buffer), want))
                    sx.check(rd._eof == (sid in quic.fin_in or term), "%s: reader of stream %d %s" % (where, sid, "at EOF early" if rd._eof else "not at EOF after FIN/termination"))
                sx.check([w for w in quic.writes] == written, "writes reordered or altered")

            _drain(loop, inject, budget)
            invariants("after connect")
            for step in range(max_steps):
                acts = ["datagram"]
                if loop.active_timers():
                    acts.append("timer")
                if n_ping < 2:
                    acts.append("ping")
                if n_write < 2:
                    acts.append("write")
                if not closed_called:
                    acts.append("close")
                if "closed" not in tasks:
                    acts.append("wait_closed")
                acts = [x for x in acts if x in actions]
                if step == 0 and first is not None:
                    if first not in acts:
                        sx.reached()
                        return
                    a = first
                else:
                    a = acts[sx.Choice("step%d" % step, len(acts))]
                if a == "datagram":
                    datagram()
                elif a == "timer":
                    timer()
                elif a == "ping":
                    n_ping += 1
                    name = "ping%d" % n_ping
                    tasks[name] = loop.create_task(proto.ping())
                    _drain(loop, inject, budget)  # the coroutine starts at the next loop iteration
                elif a == "write":
                    n_write += 1
                    if not writers:
                        t = loop.create_task(proto.create_stream())
                        _drain(loop, inject, budget)
                        writers.append(t.result()[1])
                    data = b"w%d" % n_write
                    fin = sx.Bool("write_fin%d" % n_write)
                    w = writers[0]
                    sid = w.get_extra_info("stream_id")
                    if not w.transport.is_closing():
                        call(w.write, data)
                        written.append((sid, data, False))
                        if fin:
                            call(w.write_eof)
                            written.append((sid, b"", True))
                elif a == "close":
                    closed_called = True
                    call(proto.close)
                elif a == "wait_closed":
                    tasks["closed"] = loop.create_task(proto.wait_closed())
                _drain(loop, inject, budget)
                invariants("step %d (%s)" % (step, a))

    return run


# ------------------------------------------------------------------ server routing
class CidTable:
    """dict[bytes, protocol] whose keys may be symbolic strings (linear scan, solver-decided equality)"""

    def __init__(self):
        self.rows = []

    def _find(self, k):
        for i, (kk, _) in enumerate(self.rows):
            if kk == k:
                return i
        return None

    def get(self, k, d=None):
        i = self._find(k)
        return d if i is None else self.rows[i][1]

    def __getitem__(self, k):
        i = self._find(k)
        if i is None:
            raise KeyError(k)
        return self.rows[i][1]

    def __setitem__(self, k, v):
        i = self._find(k)
        if i is None:
            self.rows.append([k, v])
        else:
            self.rows[i][1] = v

    def __delitem__(self, k):
        i = self._find(k)
        if i is None:
            raise KeyError(k)
        del self.rows[i]

    def __contains__(self, k):
        return self._find(k) is not None

    def items(self):
        return [(k, v) for k, v in self.rows]

    def values(self):
        return [v for _, v in self.rows]

    def keys(self):
        return [k for k, _ in self.rows]

    def clear(self):
        self.rows = []

    def __len__(self):
        return len(self.rows)


class IdealRSA:
    """public-key encryption of retry tokens: a string decrypts only if encrypt() produced it"""

    def __init__(self):
        self.tokens = []

    def public_key(self):
        return self

    def encrypt(self, plaintext, pad):
        tok = b"retry-token-%04d" % len(self.tokens)
        self.tokens.append((tok, plaintext))
        return tok

    def decrypt(self, token, pad):
        for tok, pt in self.tokens:
            if token == tok:
                return pt
        raise ValueError("Decryption failed")


class _BufStub:
    def __init__(self, data=None, capacity=0):
        self.dg = data


@contextlib.contextmanager
def route_env():
    """structural stubs for the server (exploration and replay)"""
    import aioquic.asyncio.server as srv
    import aioquic.quic.retry as rt

    saved = {n: srv.__dict__[n] for n in ("Buffer", "pull_quic_header", "encode_quic_retry", "encode_quic_version_negotiation", "QuicConnection", "os")}
    ctr = [0]

    class _OS:
        @staticmethod
        def urandom(n):
            ctr[0] += 1
            return bytes([0xA0 + ctr[0]]) * n

    ROUTE["urandom_reset"] = lambda: ctr.__setitem__(0, 0)
    srv.os = _OS
    saved_rsa = rt.rsa
    srv.Buffer = _BufStub
    srv.pull_quic_header = lambda buf, host_cid_length=None: buf.dg.header if buf.dg.header is not None else (_ for _ in ()).throw(ValueError("malformed"))
    srv.encode_quic_retry = lambda **kw: ("RETRY", kw)
    srv.encode_quic_version_negotiation = lambda **kw: ("VN", kw)
    srv.QuicConnection = lambda **kw: ROUTE["factory"](**kw)

    class _R:
        @staticmethod
        def generate_private_key(public_exponent=None, key_size=None):
            k = IdealRSA()
            ROUTE["rsa"] = k
            return k

    rt.rsa = _R
    try:
        yield
    finally:
        srv.__dict__.update(saved)
        rt.rsa = saved_rsa


ROUTE = {}
ADDRS = [("192.0.2.1", 1111), ("192.0.2.2", 2222)]


def route(retry, max_steps, unsupported_version=False, force_first=True, shard=None):
    def run():
        _quiet()
        from aioquic.asyncio.server import QuicServer
        from aioquic.quic.configuration import QuicConfiguration
        from aioquic.quic.packet import QuicHeader, QuicPacketType, QuicProtocolVersion

        import z3

        loop = am.FakeLoop()
        with am.running(loop):
            cfg = QuicConfiguration(is_client=False)
            conns = []
            known = []
            n = [0]

            def fresh_cid(tag):
                n[0] += 1
                c = sx.Bytes("cid.%s%d" % (tag, n[0]), 8, 8)
                for k in known:
                    if sx.E.mode == "sym":
                        sx.assume(sx.SymBool(z3.Not(sx.SymBytes.of(c).eq_term(k))))
                    else:
                        sx.assume(bytes(c) != bytes(k))
                known.append(c)
                return c

            def factory(**kw):
                q = am.FakeQuic("conn%d" % len(conns), server=True, host_cid=fresh_cid("host"), kinds=["terminated", "cid_issued", "cid_retired"], max_events=1, timer_mode="fixed", **kw)
                q.cid_source = lambda: fresh_cid("new")
                q.received = 0
                orig = q.receive_datagram

                def recv(data, addr, now, q=q, orig=orig):
                    q.received += 1
                    orig(data, addr, now)

                q.receive_datagram = recv
                conns.append(q)
                return q

            ROUTE["factory"] = factory
            server = QuicServer(configuration=cfg, retry=retry)
            transport = am.FakeTransport()
            server.connection_made(transport)
            server._protocols = CidTable()
            rsa = ROUTE.get("rsa") if retry else None
            ghost = {}  # id(quic) -> creation dcid
            escaped = []

            def owner_of(cid):
                for q in conns:
                    if q.terminated:
                        continue
                    for c in [ghost[id(q)]] + [x for x in q.issued if not any(x is r for r in q.retired)]:
                        if cid == c:
                            return q
                return None

            def invariant(where):
                sx.check(not escaped and not loop.errors, "%s: exception in the server: %s" % (where, (escaped + [repr(e.get("exception")) for e in loop.errors])[:2]))
                for q in conns:
                    live = not (q.terminated and not q.events)
                    if live and not q.terminated:
                        for c in [ghost[id(q)]] + [x for x in q.issued if not any(x is r for r in q.retired)]:
                            p = server._protocols.get(c)
                            sx.check(p is not None and p._quic is q, "%s: a live connection is not reachable through a connection ID it issued (or was created for)" % where)
                    if not live:
                        sx.check(not any(p._quic is q for p in server._protocols.values()), "%s: routing entry left for a terminated connection" % where)

            for step in range(max_steps):
                acts = ["datagram"] + (["timer"] if loop.active_timers() else [])
                a = acts[sx.Choice("step%d" % step, len(acts))]
                if a == "timer":
                    t = loop.active_timers()
                    loop.fire_timer(t[sx.Choice("which_timer%d" % step, len(t))])
                    loop.run_ready()
                    invariant("step %d (timer)" % step)
                    continue
                forced = force_first and step == 0  # start with a full-size token-less Initial: creates a connection (or draws a Retry)
                if unsupported_version:
                    version, ptype = 0x1A2A3A4A, [QuicPacketType.INITIAL, QuicPacketType.HANDSHAKE][sx.Choice("type%d" % step, 2)]
                elif forced:
                    version, ptype = int(QuicProtocolVersion.VERSION_1), QuicPacketType.INITIAL
                else:
                    pk = shard if (shard is not None and step == 1) else sx.Choice("packet%d" % step, 3)
                    version = None if pk == 2 else int(QuicProtocolVersion.VERSION_1)
                    ptype = [QuicPacketType.INITIAL, QuicPacketType.HANDSHAKE, QuicPacketType.ONE_RTT][pk]
                dcid = sx.Bytes("dcid%d" % step, 8, 8)
                known.append(dcid)  # IDs generated later are random: distinct from anything seen so far
                addr = ADDRS[sx.Choice("addr%d" % step, 2)] if retry else ADDRS[0]
                size = 1200 if forced else [1200, 1199][sx.Choice("size%d" % step, 2)]
                tokens = list(rsa.tokens) if rsa is not None else []
                tk = 0 if (forced or not retry) else sx.Choice("token%d" % step, 2 + len(tokens))
                tok_entry = None
                if tk == 0:
                    token = b""
                elif tk == 1:
                    token = sx.Bytes("garbage%d" % step, 16, 16)
                    for t_, _ in tokens:
                        sx.assume(not (token == t_))
                else:
                    token, _pt = tokens[tk - 2]
                    tok_entry = issued_tokens[tk - 2]
                    # a compliant client addresses the token-bearing Initial to the Retry's source ID
                    sx.assume(dcid == tok_entry["scid"])
                header = QuicHeader(version=version, packet_type=ptype, packet_length=size, destination_cid=dcid, source_cid=b"\x0c" * 8, token=token, integrity_tag=b"", supported_versions=[])
                pre = owner_of(dcid)
                n_conns, n_sent = len(conns), len(transport.sent)
                recv0 = {id(q): q.received for q in conns}
                try:
                    server.datagram_received(am.Datagram(size, header), addr)
                except Exception as exc:
                    escaped.append(repr(exc))
                loop.run_ready()
                created = conns[n_conns:]
                sent = transport.sent[n_sent:]
                delivered = [q for q in conns if q.received != recv0.get(id(q), 0)]
                if version is not None and version not in cfg.supported_versions:
                    sx.check(not created and not delivered and [s[0][0] for s in sent if isinstance(s[0], tuple)] == ["VN"], "unsupported version: expected exactly a Version Negotiation reply")
                elif pre is not None:
                    sx.check(not created and delivered == [pre], "datagram for a known connection ID was %s" % ("used to create new connection state" if created else "not delivered to the connection that issued it"))
                else:
                    may_create = size >= 1200 and ptype == QuicPacketType.INITIAL
                    if retry and may_create and tk == 0:
                        retries = [s for s in sent if isinstance(s[0], tuple) and s[0][0] == "RETRY"]
                        sx.check(not created and not delivered and len(retries) == 1 and retries[0][1] == addr, "address validation: expected exactly one Retry to the sender and no connection state")
                        if len(retries) == 1:
                            kw = retries[0][0][1]
                            sx.check(len(rsa.tokens) == len(tokens) + 1 and kw["retry_token"] == rsa.tokens[-1][0], "Retry does not carry the token just created")
                            issued_tokens.append({"addr": addr, "odcid": dcid, "scid": kw["source_cid"]})
                            known.append(kw["source_cid"])
                            sx.check(kw["original_destination_cid"] == dcid and kw["destination_cid"] == header.source_cid, "Retry fields do not echo the Initial")
                    elif retry and may_create:
                        valid = tok_entry is not None and tok_entry["addr"] == addr
                        if not valid:
                            sx.check(not created and not delivered, "connection state created under address validation %s" % ("for a token issued to another address" if tok_entry is not None else "for a token this server did not issue"))
                        else:
                            sx.check(len(created) == 1 and delivered == created, "valid retry token did not create exactly one connection that receives the datagram")
                            if created:
                                kw = created[0].ctor
                                sx.check(kw.get("original_destination_connection_id") == tok_entry["odcid"] and kw.get("retry_source_connection_id") == tok_entry["scid"], "connection created with IDs other than those bound into the token")
                    elif may_create:
                        sx.check(len(created) == 1 and delivered == created, "Initial for an unknown connection ID did not create exactly one connection")
                        if created:
                            kw = created[0].ctor
                            sx.check(kw.get("original_destination_connection_id") == dcid and kw.get("retry_source_connection_id") is None, "connection created with wrong original destination ID")
                    else:
                        sx.check(not created and not delivered, "connection state created for a datagram that is not a full-size Initial")
                for q in created:
                    ghost[id(q)] = dcid
                invariant("step %d (datagram)" % step)

        ROUTE.pop("factory", None)

    issued_tokens = []

    def wrapped():
        issued_tokens.clear()
        ROUTE.pop("rsa", None)
        if "urandom_reset" in ROUTE:
            ROUTE["urandom_reset"]()
        run()

    return wrapped


def obligations(tier):
    T = tier == "thorough"
    obs = []
    enc_p = [PROTO + n for n in ("datagram_received", "_handle_timer", "transmit", "_transmit_soon", "_process_events", "quic_event_received", "ping", "wait_connected", "wait_closed", "close", "connect", "create_stream", "_create_stream")] + ["aioquic.asyncio.protocol.QuicStreamAdapter.write", "aioquic.asyncio.protocol.QuicStreamAdapter.write_eof"]
    menus = {
        # focus: (application/loop actions, engine events, events per delivery, timer mode, overtakes)
        "transmit": (["datagram", "timer", "write", "ping", "close"], ["terminated"], 1, "free", 2),
        "waiters": (["datagram", "ping", "close", "wait_closed"], ["handshake", "ping_ack", "terminated"], 2, "fixed", 1),
        "streams": (["datagram", "write"], ["stream", "terminated"], 2, "fixed", 1),
        "mixed": (["datagram", "timer", "write", "ping", "close", "wait_closed"], ["handshake", "ping_ack", "stream", "terminated"], 1, "free", 1),
    }
    plan = [("transmit", 3, 1), ("waiters", 3, 1), ("streams", 3, 1), ("mixed", 2, 1)] if not T else [("transmit", 3, 2), ("waiters", 4, 1), ("streams", 4, 1), ("mixed", 3, 1)]
    for focus, steps, ot in plan:
        acts, kinds, me, tm_, _ = menus[focus]
        for first in acts:
            obs.append(Ob("C19.sched.%s.%s" % (focus, first), sched(steps, ot, acts, kinds, me, tm_, first), shims, enc_p, bounds="every schedule of %d steps (first: %s) over %s; up to %d datagrams/timer expiries overtaking a deferred callback; <= %d engine events per datagram/timer from %s; pings <= 2, writes <= 2 (with/without FIN); timer: %s" % (steps, first, acts, ot, me, kinds, "presence changes at every engine call, instants symbolic reals" if tm_ == "free" else "one constant deadline"), outside="real sockets, kernel scheduling and wall-clock time", budget_s=1500 if T else 560, max_paths=2000000, max_decisions=2000))
    enc_s = [SERVER + n for n in ("datagram_received", "_connection_id_issued", "_connection_id_retired", "_connection_terminated")] + [PROTO + "_process_events", PROTO + "datagram_received", "aioquic.quic.retry.QuicRetryTokenHandler.create_token", "aioquic.quic.retry.QuicRetryTokenHandler.validate_token", "aioquic.quic.retry.encode_address"]
    for retry in (False, True):
        for steps, ff in ((3, True), (2, False)) if not T else ((3, True), (4, True), (3, False)):
          for shard in ((0, 1, 2) if ff else (None,)):
            obs.append(Ob("C19.route.%s.steps%d%s" % ("retry" if retry else "noretry", steps, (".%s" % ["initial", "handshake", "short"][shard]) if ff else ".free"), route(retry, steps, force_first=ff, shard=shard), route_shims, enc_s, bounds="%d datagrams/timer expiries" % steps + (" (the first is a full-size token-less Initial)" if ff else "") + "; per datagram: Initial, Handshake or short header, destination ID = symbolic 8 bytes (free to equal any known ID), sender one of 2 addresses, size 1199 or 1200, token empty / 16 symbolic bytes / any token issued earlier in the run; <= 1 engine event per delivery from {ConnectionIdIssued, ConnectionIdRetired, ConnectionTerminated}; address validation %s" % ("on" if retry else "off"), env=route_env, budget_s=1500 if T else 560, max_paths=2000000, max_decisions=2000))
    obs.append(Ob("C19.route.version", route(False, 2, unsupported_version=True), route_shims, enc_s[:1], bounds="2 datagrams with an unsupported version (Initial or Handshake, any destination ID, size 1199/1200)", env=route_env, budget_s=300))
    return obs
