"""C04 -- native helpers never access memory out of bounds.

ll2smt runs the LLVM IR of every Buffer_* / AEAD_* / HeaderProtection_* function,
compiled from the current working tree, from an arbitrary state satisfying the
representation invariant and with arbitrary well-typed arguments; every memory
access carries an in-bounds obligation discharged by z3.
"""
from __future__ import annotations

import json
import time

import z3

from .. import cmodel as C
from .. import ll2smt as L
from ..ll2smt import Ptr, bv
from ..runner import Ob

ASSUMPTIONS = [
    "clang -O1 lowering of the C sources is faithful; ll2smt's semantics of the ~25 IR opcodes used",
    "CPython argument parsing contract: y# yields a readable buffer of the reported length (+NUL); n/K/I/H/B yield any value of their C type",
    "OpenSSL contracts: EVP_CipherUpdate reads inl bytes and writes at most inl+block_size-1 bytes (nothing when inl <= 0); GET_TAG/SET_TAG touch exactly the 16 bytes named; EVP_CipherInit_ex reads key_length key bytes and iv_length iv bytes (16 for the chacha20 header-protection sample, 12 for AEAD nonces)",
    "malloc succeeds for requests up to 2^45 bytes and fails above (allocation failure of satisfiable requests is out of scope)",
]


def _dedup(viols):
    seen, out = set(), []
    for v in viols:
        k = (v["kind"], v["detail"])
        if k not in seen:
            seen.add(k)
            out.append(v)
    return out


def _result(ex, paths, viols, t0, samples):
    return {"paths": len(paths), "paths_with_checks": len(paths), "queries": ex.queries, "solver_time": ex.solver_time, "violations": viols, "inconclusive": sorted(set(ex.inconclusive)), "samples": samples, "exhaustive": not ex.inconclusive, "accesses_checked": ex.accesses}


# ------------------------------------------------------------------ Buffer
def buffer_fn(fname, init=False):
    def run():
        t0 = time.time()
        ex, paths, ctx = C.run_buffer_fn(fname, init=init)
        viols = [{"msg": "out-of-bounds %s in %s: %s" % (v["kind"], fname[1:], v["detail"]), "site": fname[1:], "inputs": dict(v["inputs"], _fn=fname)} for v in _dedup(ex.violations)]
        o_base, o_end, o_pos = ctx["offs"]
        samples = []
        for p in paths:
            so = C.final_self(p, ctx)
            pc = p.cond
            failed = isinstance(p.ret, Ptr) and p.ret.obj is None if not init else None
            if init:
                rv = z3.simplify(p.ret)
                ok = z3.is_bv_value(rv) and rv.as_long() == 0
                if not ok:
                    if p.exc is None:
                        viols.append({"msg": "Buffer_init fails without setting an exception", "site": fname[1:], "inputs": {"_fn": fname}})
                    continue
                # success: must establish the representation invariant over one live object
                b, e, q = so.slots.get(o_base), so.slots.get(o_end), so.slots.get(o_pos)
                good = b is not None and e is not None and q is not None and b.obj is not None and b.obj is e.obj and b.obj is q.obj
                if good:
                    r = ex.check(*(pc + [z3.Not(z3.And(b.off == 0, q.off == 0, z3.ULE(e.off, b.obj.size)))]))
                    good = r == z3.unsat
                if not good:
                    r = ex.check(*pc)
                    m = ex.solver.model() if r == z3.sat else None
                    vals = {n: (m.eval(t, model_completion=True).as_signed_long() if n.endswith(":signed") else m.eval(t, model_completion=True).as_long()) for n, t in ex.inputs.items()} if m else {}
                    viols.append({"msg": "Buffer_init returns success without establishing base <= pos <= end over an allocated object (base=%s end=%s)" % (b, e), "site": fname[1:], "inputs": dict(vals, _fn=fname)})
                continue
            # invariant preserved
            b, e, q = so.slots[o_base], so.slots[o_end], so.slots[o_pos]
            same = b.obj is e.obj is q.obj and b.obj is not None and b.obj.name == "buf"
            if not same:
                viols.append({"msg": "%s leaves base/end/pos pointing into different objects" % fname[1:], "site": fname[1:], "inputs": {"_fn": fname}})
                continue
            inv = z3.And(b.off == 0, e.off == ctx["cap"], z3.ULE(q.off, ctx["cap"]))
            r = ex.check(*(pc + [z3.Not(inv)]))
            if r != z3.unsat:
                m = ex.solver.model() if r == z3.sat else None
                vals = {n: m.eval(t, model_completion=True).as_long() for n, t in ex.inputs.items()} if m else {}
                viols.append({"msg": "%s breaks the representation invariant base <= pos <= end" % fname[1:], "site": fname[1:], "inputs": dict(vals, _fn=fname)})
            if failed:
                # rejected input: exception set, helper still usable (position unchanged)
                if p.exc is None:
                    viols.append({"msg": "%s returns NULL without an exception" % fname[1:], "site": fname[1:], "inputs": {"_fn": fname}})
                r = ex.check(*(pc + [q.off != ctx["pos"]]))
                if r != z3.unsat:
                    viols.append({"msg": "%s moves the position although it raised" % fname[1:], "site": fname[1:], "inputs": {"_fn": fname}})
            elif p.exc is not None and not init:
                viols.append({"msg": "%s sets an exception but returns a value" % fname[1:], "site": fname[1:], "inputs": {"_fn": fname}})
            if len(samples) < 2:
                samples.append({"function": fname[1:], "path_outcome": "raises %s" % p.exc if failed else "returns", "path_condition_atoms": len(pc)})
        return _result(ex, paths, viols, t0, samples)

    return run


def replay_buffer(inputs):
    """replay a Buffer counterexample against an ASan build of the current _buffer.c"""
    fn = inputs.get("_fn", "")[1:]
    meth = fn.replace("Buffer_", "")
    cap, pos = inputs.get("cap", 0), inputs.get("pos", 0)
    args = []
    i = 0
    while True:
        ks = [k for k in inputs if k.startswith("arg%d_" % i)]
        if not ks:
            break
        k = [x for x in ks if not x.endswith("byte0")][0]
        v = inputs[k]
        if k.endswith("_len"):
            args.append("bytes(%d)" % min(v, 1 << 20))
        else:
            args.append(str(v))
        i += 1
    if meth == "init":
        present = [inputs.get(k) for k in sorted(inputs) if k.startswith("present_")]
        capv = None
        for k in inputs:
            if k.endswith("_n:signed"):
                capv = inputs[k]
        script = "from aioquic._buffer import Buffer\nb = Buffer(capacity=%s)\nb.push_uint8(1)\nprint('survived')\n" % (capv if capv is not None else -1)
    elif meth.endswith("_getter"):
        script = "from aioquic._buffer import Buffer\nb = Buffer(capacity=%d)\nb.seek(%d)\nprint(b.%s)\n" % (cap, pos, meth.replace("_getter", ""))
    elif meth.startswith("pull") or meth == "data_slice":
        content = "bytes(%d) + bytes(%r)[:%d]" % (pos, [inputs.get("buf_b%d" % k, 0) for k in range(8)], max(0, cap - pos))
        script = "from aioquic._buffer import Buffer\nd = %s\nd = d + bytes(%d - len(d))\nb = Buffer(data=d)\nb.seek(%d)\ntry:\n    print(b.%s(%s))\nexcept ValueError as e:\n    print('raised', e)\n" % (content, cap, pos, meth, ", ".join(args))
    else:
        script = "from aioquic._buffer import Buffer\nb = Buffer(capacity=%d)\nb.seek(%d)\ntry:\n    b.%s(%s)\nexcept ValueError as e:\n    print('raised', e)\n" % (cap, pos, meth, ", ".join(args))
    rep, summary = C.run_under_asan(script)
    return {"reproduced": bool(rep), "msg": "ASan: " + summary if rep else "", "why": summary, "script": script}


# ------------------------------------------------------------------ crypto
def crypto_fn(fname):
    def run():
        t0 = time.time()
        ex, paths, ctx = C.run_crypto_fn(fname)
        viols = [{"msg": "out-of-bounds %s in %s: %s" % (v["kind"], fname[1:], v["detail"]), "site": fname[1:], "inputs": dict(v["inputs"], _fn=fname)} for v in _dedup(ex.violations)]
        samples = []
        for p in paths:
            isnull = isinstance(p.ret, Ptr) and p.ret.obj is None
            if isinstance(p.ret, Ptr):
                if isnull and p.exc is None:
                    viols.append({"msg": "%s returns NULL without an exception" % fname[1:], "site": fname[1:], "inputs": {"_fn": fname}})
            if len(samples) < 2:
                samples.append({"function": fname[1:], "path_outcome": ("raises %s" % p.exc) if p.exc else "returns", "path_condition_atoms": len(p.cond), "external_calls": [c[0] for c in p.calls][:8]})
        return _result(ex, paths, viols, t0, samples)

    return run


def replay_crypto(inputs):
    r = _replay_crypto(inputs)
    if not r.get("reproduced") and inputs.get("_alt"):
        r2 = _replay_crypto(dict(inputs["_alt"], _fn=inputs.get("_fn")))
        if r2.get("reproduced"):
            r2["msg"] += " (larger witness of the same obligation)"
            return r2
    return r


def _replay_crypto(inputs):
    fn = inputs.get("_fn", "")[1:]
    g = inputs.get

    def blob(i):
        n = min(g("arg%d_len" % i, 0), 1 << 20)
        b0 = g("arg%d_byte0" % i, 0)
        return "(bytes([%d]) + bytes(%d))" % (b0, n - 1) if n > 0 else "b''"

    pre = "from aioquic._crypto import AEAD, HeaderProtection, CryptoError\n"
    if fn == "HeaderProtection_remove":
        body = "hp = HeaderProtection(b'aes-128-ecb', bytes(16))\ntry:\n    hp.remove(%s, %d)\nexcept CryptoError as e:\n    print('raised', e)\n" % (blob(0), g("arg1_I", 0))
    elif fn == "HeaderProtection_apply":
        body = "hp = HeaderProtection(b'aes-128-ecb', bytes(16))\ntry:\n    hp.apply(%s, %s)\nexcept CryptoError as e:\n    print('raised', e)\n" % (blob(0), blob(1))
    elif fn == "AEAD_encrypt":
        # the tag lands in the object's own key[] (intra-object): observable as a changed key
        body = "a = AEAD(b'aes-128-gcm', bytes(16), bytes(12))\nx = a.encrypt(bytes(16), b'', 0)\ntry:\n    a.encrypt(%s, %s, %d)\nexcept CryptoError as e:\n    print('raised', e)\ny = a.encrypt(bytes(16), b'', 0)\nassert x == y, 'sealing key was overwritten by the helper'\n" % (blob(0), blob(1), g("arg2_K", 0))
        rc, out = C.run_plain(pre + body)
        return {"reproduced": rc not in (0, None), "msg": "observable effect: " + out.strip().splitlines()[-1] if rc else "", "why": out, "script": pre + body}
    elif fn == "AEAD_decrypt":
        body = "a = AEAD(b'aes-128-gcm', bytes(16), bytes(12))\ntry:\n    a.decrypt(%s, %s, %d)\nexcept CryptoError as e:\n    print('raised', e)\n" % (blob(0), blob(1), g("arg2_K", 0))
    elif fn == "AEAD_init":
        body = "try:\n    AEAD(b'aes-128-gcm', %s, %s)\nexcept CryptoError as e:\n    print('raised', e)\n" % (blob(1), blob(2))
    else:
        body = "try:\n    HeaderProtection(b'aes-128-ecb', %s)\nexcept CryptoError as e:\n    print('raised', e)\n" % blob(1)
    rep, summary = C.run_under_asan(pre + body)
    return {"reproduced": bool(rep), "msg": "ASan: " + summary if rep else "", "why": summary, "script": pre + body}


def obligations(tier):
    obs = []
    mod = C.module("buffer")
    for fname in sorted(mod.funcs):
        if not fname.startswith("@Buffer_") or fname == "@Buffer_dealloc":
            continue
        init = fname == "@Buffer_init"
        obs.append(Ob("C04.buf.%s" % fname[1:], buffer_fn(fname, init=init), kind="custom", replay_fn=replay_buffer, encoded=["_buffer.c:%s (LLVM IR)" % fname[1:]], bounds="any state with base <= pos <= end over one object of capacity <= 2^40, any argument values of the C types, byte-string arguments of any length <= 2^40; loops unrolled <= %d" % L.LOOP_BOUND, outside="Buffer_dealloc; allocation failure", budget_s=600))
    cm = C.module("crypto")
    for fname in sorted(C.CRYPTO_FUNCS):
        if fname in cm.funcs:
            obs.append(Ob("C04.crypto.%s" % fname[1:], crypto_fn(fname), kind="custom", replay_fn=replay_crypto, encoded=["_crypto.c:%s (LLVM IR)" % fname[1:]], bounds="arbitrary object state, any byte-string arguments of length <= 2^40 and any integer arguments of their C types; loops unrolled <= %d" % L.LOOP_BOUND, outside="contents of OpenSSL; dealloc functions", budget_s=600))
    return obs
