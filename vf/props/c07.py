"""C07 -- receive-side limits are enforced and buffering stays bounded."""
from __future__ import annotations

from .. import connmodel as cm
from .. import symx as sx
from ..runner import Ob
from . import c05

ASSUMPTIONS = c05.ASSUMPTIONS[:1] + ["step-inductive: one frame from an arbitrary limit state satisfying the ledger invariant (used = sum of highest offsets <= value); longer histories are carried by the invariant"]
V62 = (1 << 62) - 1
FLOW, STREAM_LIMIT, FINAL_SIZE, STREAM_STATE = 0x3, 0x4, 0x6, 0x5


def stream_ob(role, kind):
    """one STREAM or RESET_STREAM frame against symbolic limits, with an independent ledger"""
    name = "c05_busy_%s" % role

    def prep():
        c05._quiet()
        cm.prepare(name, c05.busy(role))

    def run():
        from aioquic import tls

        c05._quiet()
        p = cm.get(name, role) if sx.E.mode == "sym" else cm.Peer(*c05._replay_pair(role, "busy"))
        conn = p.conn
        peer_bit = 0 if role == "server" else 1
        # symbolic limits (ledger invariant: used <= value; limits only grow from what the template had)
        used = conn._local_max_data.used
        md = sx.Int("max_data", used, V62)
        conn._local_max_data.value = md
        conn._local_max_data.sent = md if not sx.Bool("max_data_update_lost") else 0
        ms_bidi = sx.Int("max_streams_bidi", conn._local_max_streams_bidi.used, 1 << 60)
        conn._local_max_streams_bidi.value = ms_bidi
        conn._local_max_streams_bidi.sent = ms_bidi if not sx.Bool("max_streams_update_lost") else 0
        msd_new = sx.Int("max_stream_data_new", 0, V62)
        conn._local_max_stream_data_bidi_remote = msd_new
        # target stream: the existing open peer stream (8 / 1...) or a new one
        existing = [sid for sid, st in conn._streams.items() if sid % 4 == peer_bit]
        target = sx.Choice("target", 2)
        if target == 0 and existing:
            sid = existing[0]
            st = conn._streams[sid]
            h = st.receiver.highest_offset
            msdl = sx.Int("max_stream_data_existing", h, V62)
            st.max_stream_data_local = msdl
            st.max_stream_data_local_sent = msdl
            count_ok = True
            new_index = None
        else:
            idx = sx.Int("stream_index", 3, (1 << 60) - 1)
            sid = idx * 4 + peer_bit
            h = 0
            msdl = msd_new
            count_ok = sx.truth(idx + 1 <= ms_bidi)
            new_index = idx
        sx.register_keys(range(0x40))
        sx.register_keys(list(conn._streams) + list(conn._streams_finished))
        B = sx.BufferClass()
        buf = B(capacity=64)
        off = sx.Int("off", 0, V62)
        if kind == "stream":
            ln = [0, 1, 3][sx.Choice("len", 3)]
            fin = sx.Bool("fin")
            sx.assume(off + ln <= V62)
            buf.push_uint8(0x0E | (1 if fin else 0))
            c05.push_v(buf, sid)
            c05.push_v(buf, off)
            buf.push_uint_var(ln)
            buf.push_bytes(sx.Bytes("d", ln, ln))
            end = off + ln
        else:
            buf.push_uint8(0x04)
            c05.push_v(buf, sid)
            c05.push_v(buf, sx.Int("err", 0, V62))
            c05.push_v(buf, off)
            end = off
        used_before = conn._local_max_data.used
        p.deliver(tls.Epoch.ONE_RTT, buf.data, now=1.0)
        closed = conn._close_event
        # independent ledger
        allowed = set()
        if not count_ok:
            allowed.add(STREAM_LIMIT)
        else:
            if sx.truth(end > msdl):
                allowed.add(FLOW)
            newly = sx.ite(end > h, end - h, 0)
            if sx.truth(used_before + newly > md):
                allowed.add(FLOW)
            if target == 0 and existing:
                fs = conn._streams[sid].receiver._final_size if sid in conn._streams else None
        if allowed:
            sx.check(closed is not None, "a frame beyond an advertised limit was accepted")
            if closed is not None:
                sx.check(closed.error_code in allowed, "limit violation closed the connection with a non-matching error code")
            return
        # within every limit: never accused; ledger updated by exactly the newly covered bytes
        sx.check(closed is None or closed.error_code == FINAL_SIZE, "a peer that stays within the advertised limits was accused")
        if closed is None:
            newly = sx.ite(end > h, end - h, 0)
            sx.check(conn._local_max_data.used == used_before + newly, "connection flow-control ledger not advanced by the newly received bytes")
            if sid in [k for k in conn._streams if not isinstance(k, sx.SymInt)] or True:
                stx = conn._streams.get(sid)
                if stx is not None and kind == "stream":
                    blen = sx.length_of(stx.receiver._buffer)
                    sx.check(blen <= msdl - stx.receiver._buffer_start, "reassembly buffer larger than the advertised stream window")

    return prep, run


def crypto_ob(role):
    """CRYPTO data held for reassembly never exceeds the documented bound"""
    name = "c05_busy_%s" % role

    def prep():
        c05._quiet()
        cm.prepare(name, c05.busy(role))

    def run():
        from aioquic import tls
        from aioquic.quic.connection import MAX_PENDING_CRYPTO

        c05._quiet()
        p = cm.get(name, role) if sx.E.mode == "sym" else cm.Peer(*c05._replay_pair(role, "busy"))
        conn = p.conn
        sx.register_keys(range(0x40))
        B = sx.BufferClass()
        buf = B(capacity=64)
        off = sx.Int("off", 0, V62)
        ln = [0, 1, 3][sx.Choice("len", 3)]
        sx.assume(off + ln <= V62)
        buf.push_uint8(0x06)
        c05.push_v(buf, off)
        buf.push_uint_var(ln)
        buf.push_bytes(sx.Bytes("d", ln, ln))
        st = conn._crypto_streams[tls.Epoch.ONE_RTT]
        start = st.receiver.starting_offset()
        p.deliver(tls.Epoch.ONE_RTT, buf.data, now=1.0)
        closed = conn._close_event
        if sx.truth(off + ln - start > MAX_PENDING_CRYPTO):
            sx.check(closed is not None and closed.error_code == 0xD, "CRYPTO data beyond the buffering bound was accepted")
        else:
            sx.check(sx.length_of(st.receiver._buffer) <= MAX_PENDING_CRYPTO, "CRYPTO reassembly buffer exceeds the bound")
            sx.reached()

    return prep, run


def challenge_ob(role):
    """peer-driven queues stay bounded: path challenges, connection IDs, retirements"""
    name = "c05_busy_%s" % role

    def prep():
        c05._quiet()
        cm.prepare(name, c05.busy(role))

    def run():
        from aioquic import tls
        from aioquic.quic.connection import MAX_PENDING_RETIRES, MAX_REMOTE_CHALLENGES

        c05._quiet()
        p = cm.get(name, role) if sx.E.mode == "sym" else cm.Peer(*c05._replay_pair(role, "busy"))
        conn = p.conn
        sx.register_keys(range(0x40))
        path = conn._network_paths[0]
        nq = sx.Choice("queued", 3)
        for i in range([0, MAX_REMOTE_CHALLENGES - 1, MAX_REMOTE_CHALLENGES][nq]):
            path.remote_challenges.append(bytes(8))
        nret = [0, 31, 32][sx.Choice("pending_retires", 3)]
        conn._retire_connection_ids = list(range(100, 100 + nret))
        B = sx.BufferClass()
        buf = B(capacity=200)
        for j in range(2):
            buf.push_uint8(0x1A)
            buf.push_bytes(sx.Bytes("c%d" % j, 8, 8))
        # a NEW_CONNECTION_ID that retires everything known so far
        seq = sx.Int("seq", 0, V62)
        rpt = sx.Int("rpt", 0, V62)
        buf.push_uint8(0x18)
        c05.push_v(buf, seq)
        c05.push_v(buf, rpt)
        buf.push_uint8(8)
        buf.push_bytes(sx.Bytes("cid", 8, 8))
        buf.push_bytes(sx.Bytes("srt", 16, 16))
        p.deliver(tls.Epoch.ONE_RTT, buf.data, now=1.0)
        sx.check(len(path.remote_challenges) <= MAX_REMOTE_CHALLENGES, "more path challenges queued than the documented bound")
        if conn._close_event is None:
            sx.check(1 + len(conn._peer_cid_available) <= conn._local_active_connection_id_limit, "more peer connection IDs kept than advertised")
            sx.check(len(conn._retire_connection_ids) <= min(conn._local_active_connection_id_limit * 4, MAX_PENDING_RETIRES), "retirement queue beyond its bound without closing")
        sx.reached()

    return prep, run


def obligations(tier):
    T = tier == "thorough"
    Q = "aioquic.quic.connection.QuicConnection."
    obs = []
    for role in ("client", "server"):
        for kind in ("stream", "reset"):
            prep, run = stream_ob(role, kind)
            obs.append(Ob("C07.limits.%s.%s" % (role, kind), run, cm.conn_shims, [Q + "_handle_stream_frame", Q + "_handle_reset_stream_frame", Q + "_get_or_create_stream", "aioquic.quic.stream.QuicStreamReceiver.handle_frame", "aioquic.quic.stream.QuicStreamReceiver.handle_reset"], bounds="one %s frame (any stream index up to 2^60 or the existing open peer stream, any offset/final size, length 0/1/3) against arbitrary advertised limits (connection data, stream data, stream count) satisfying the ledger invariant" % kind.upper(), prepare=prep, budget_s=900 if T else 280, max_decisions=1200, stubs=["CryptoPair -> transparent"]))
        prep, run = crypto_ob(role)
        obs.append(Ob("C07.crypto.%s" % role, run, cm.conn_shims, [Q + "_handle_crypto_frame"], bounds="one CRYPTO frame with any offset, length 0/1/3", prepare=prep, budget_s=280, max_decisions=900))
        prep, run = challenge_ob(role)
        obs.append(Ob("C07.queues.%s" % role, run, cm.conn_shims, [Q + "_handle_path_challenge_frame", Q + "_handle_new_connection_id_frame"], bounds="two PATH_CHALLENGE frames and one NEW_CONNECTION_ID (any sequence number / retire-prior-to) with the challenge queue empty, one below or at its bound and 0/31/32 pending retirements", prepare=prep, budget_s=280, max_decisions=900))
    return obs
