"""C16 -- peer stream bytes can never make the HTTP layers raise."""
from __future__ import annotations

from .. import h3model as hm
from .. import symx as sx
from ..runner import Ob
from .c15 import SymSet, _sorted

ASSUMPTIONS = ["QPACK is ideal and nondeterministic: every call into the decoder/encoder either succeeds (returning a valid header list / a solver-chosen set of unblocked streams) or raises one of pylsqpack's documented errors"]


def _h3():
    import aioquic.h3.connection as h3

    return h3


def shims():
    import aioquic.h0.connection as h0

    s = hm.h3_shims(extra=[("frozenset", SymSet), ("set", SymSet), ("sorted", _sorted), "int"])
    s[h0] = ["len", "bytes"]
    return s


GOOD_REQ = [(b":method", b"GET"), (b":scheme", b"https"), (b":authority", b"a"), (b":path", b"/")]
GOOD_RESP = [(b":status", b"200")]


def install_nondet_qpack(is_client):
    hm.IdealQpack.reset()
    ctr = [0]

    def fresh(tag):
        ctr[0] += 1
        return "%s%d" % (tag, ctr[0])

    blocked = []

    def on_header(dec, sid, data):
        c = sx.Choice(fresh("qh"), 3)
        if c == 1:
            blocked.append(sid)
            raise hm.StreamBlocked()
        if c == 2:
            raise hm.DecompressionFailed()
        return list(GOOD_RESP if is_client else GOOD_REQ)

    def on_resume(dec, sid):
        if sid in blocked:
            blocked.remove(sid)
        if sx.Bool(fresh("qr_fail")):
            raise hm.DecompressionFailed()
        return list(GOOD_RESP if is_client else GOOD_REQ)

    def on_encoder_data(dec, data):
        # a conforming decoder reports only streams it has blocked, each once
        if sx.Bool(fresh("qe_fail")):
            raise hm.EncoderStreamError()
        return [sid for sid in list(blocked) if sx.Bool(fresh("qe_unblock"))]

    def on_decoder_data(enc, data):
        if sx.Bool(fresh("qd_fail")):
            raise hm.DecoderStreamError()

    hm.IdealQpack.on_header = staticmethod(on_header)
    hm.IdealQpack.on_resume = staticmethod(on_resume)
    hm.IdealQpack.on_encoder_data = staticmethod(on_encoder_data)
    hm.IdealQpack.on_decoder_data = staticmethod(on_decoder_data)


def feed(conn, quic, events):
    """deliver events; nothing may escape; after a close the layer stays quiet"""
    for ev in events:
        was_closed = quic.closed is not None
        out = conn.handle_event(ev)
        if was_closed:
            sx.check(not out, "events produced after the connection was closed")
    sx.reached()


def h3_stream(role, stream_class, maxlen, pieces, prefix):
    def run():
        h3 = _h3()
        from aioquic.quic.events import StreamDataReceived

        is_client = role == "client"
        install_nondet_qpack(is_client)
        quic = hm.FakeQuic(is_client)
        conn = h3.H3Connection(quic)
        peer_uni = [3, 7, 11] if is_client else [2, 6, 10]
        evs = []
        if prefix == "settings":
            # valid control stream with (empty) SETTINGS
            evs.append(StreamDataReceived(data=b"\x00\x04\x00", end_stream=False, stream_id=peer_uni[0]))
            uni = peer_uni[1]
        elif prefix == "request":
            evs.append(StreamDataReceived(data=b"\x01\x02\x00\x00", end_stream=False, stream_id=0))
            uni = peer_uni[0]
        elif prefix == "sent_fin":
            # the local side has already finished sending on the stream the bytes arrive on
            conn.send_headers(0, list(GOOD_REQ if is_client else GOOD_RESP), end_stream=True) if is_client else None
            if not is_client:
                evs.append(StreamDataReceived(data=b"\x01\x02\x00\x00", end_stream=False, stream_id=0))
            uni = peer_uni[0]
        else:
            uni = peer_uni[0]
        if stream_class == "request":
            sid = 0
        elif stream_class == "control_more":
            sid = peer_uni[0]
        else:
            sid = uni
        data = sx.Bytes("d", maxlen)
        n = sx.length_of(data)
        if pieces == 1:
            evs.append(StreamDataReceived(data=data, end_stream=sx.Bool("fin"), stream_id=sid))
        else:
            cut = sx.Int("cut", 0, maxlen)
            sx.assume(cut <= n)
            evs.append(StreamDataReceived(data=data[:cut], end_stream=False, stream_id=sid))
            evs.append(StreamDataReceived(data=data[cut:], end_stream=sx.Bool("fin"), stream_id=sid))
        if not is_client and prefix == "sent_fin":
            pass
        # finally the peer's QPACK encoder stream delivers something: blocked streams may resume
        enc_sid = peer_uni[2]
        evs.append(StreamDataReceived(data=b"\x02\x00", end_stream=False, stream_id=enc_sid))
        feed(conn, quic, evs)

    return run


CL_SPELLINGS = [b"0", b"3", b"+3", b"1_0", b" 7", b"-1", b"", b"007", b"9" * 4300, b"9" * 4301, b"1" * 20000, b"\xef\xbc\x91"]


def h3_content_length(role):
    """header lists whose content-length is one of the spellings that int() and the HTTP grammar treat
    differently (signs, underscores, blanks, non-ASCII digits, more digits than int() converts)"""

    def run():
        h3 = _h3()
        from aioquic.quic.events import StreamDataReceived

        is_client = role == "client"
        install_nondet_qpack(is_client)
        base = hm.IdealQpack.on_header
        value = CL_SPELLINGS[sx.Choice("content_length_spelling", len(CL_SPELLINGS))]

        def on_header(dec, sid, data):
            return base(dec, sid, data) + [(b"content-length", value)]

        hm.IdealQpack.on_header = staticmethod(on_header)
        quic = hm.FakeQuic(is_client)
        conn = h3.H3Connection(quic)
        if is_client:
            conn.send_headers(0, list(GOOD_REQ), end_stream=True)
        body = sx.Bytes("body", 3)
        B = sx.BufferClass()
        buf = B(capacity=16)
        buf.push_bytes(b"\x01\x02\x00\x00\x00")
        buf.push_uint8(sx.length_of(body))
        buf.push_bytes(body)
        feed(conn, quic, [StreamDataReceived(data=buf.data, end_stream=sx.Bool("fin"), stream_id=0)])

    return run


def h3_datagram(role, maxlen):
    def run():
        h3 = _h3()
        from aioquic.quic.events import DatagramFrameReceived

        install_nondet_qpack(role == "client")
        quic = hm.FakeQuic(role == "client")
        conn = h3.H3Connection(quic)
        feed(conn, quic, [DatagramFrameReceived(data=sx.Bytes("d", maxlen))])

    return run


def h0_stream(role, maxlen):
    def run():
        import aioquic.h0.connection as h0
        from aioquic.quic.events import StreamDataReceived

        quic = hm.FakeQuic(role == "client")
        conn = h0.H0Connection(quic)
        data = sx.Bytes("d", maxlen)
        cut = sx.Int("cut", 0, maxlen)
        sx.assume(cut <= sx.length_of(data))
        conn.handle_event(StreamDataReceived(data=data[:cut], end_stream=False, stream_id=0))
        conn.handle_event(StreamDataReceived(data=data[cut:], end_stream=sx.Bool("fin"), stream_id=0))
        sx.reached()

    return run


def obligations(tier):
    T = tier == "thorough"
    P = "aioquic.h3.connection."
    enc = [P + "H3Connection.handle_event", P + "H3Connection._receive_stream_data_uni", P + "H3Connection._receive_request_or_push_data", P + "H3Connection._handle_control_frame", P + "H3Connection._handle_request_or_push_frame", P + "parse_settings", P + "parse_max_push_id", P + "H3Connection._validate_settings", P + "H3Connection._receive_datagram"]
    obs = []
    n1 = 9 if T else 6
    n2 = 7 if T else 5
    for role in ("client", "server"):
        for cls, prefix, pieces, n in [("request", "none", 1, n1), ("request", "none", 2, n2), ("uni", "none", 1, n1), ("uni", "none", 2, n2), ("uni", "settings", 1, n1), ("control_more", "settings", 1, n1), ("uni", "request", 1, n1), ("request", "sent_fin", 1, n2)]:
            obs.append(Ob("C16.h3.%s.%s.%s.p%d" % (role, cls, prefix, pieces), h3_stream(role, cls, n, pieces, prefix), shims, enc, bounds="every byte string of length <= %d delivered in %d piece(s) with or without FIN on a %s stream after prefix '%s'; every QPACK outcome" % (n, pieces, cls, prefix), stubs=["pylsqpack -> ideal nondeterministic QPACK", "QuicConnection -> recorder"], env=hm.patched_qpack, budget_s=2400 if T else 280, max_decisions=1200))
        obs.append(Ob("C16.h3.%s.content_length" % role, h3_content_length(role), shims, enc + [P + "validate_headers", P + "H3Connection._check_content_length"], bounds="a HEADERS frame whose content-length is any of %d spellings (signs, underscore, blank, empty, leading zeros, non-ASCII digit, 4300/4301/20000 digits) followed by a DATA frame with a symbolic body of <= 3 bytes, with or without FIN" % len(CL_SPELLINGS), stubs=["pylsqpack -> ideal nondeterministic QPACK", "QuicConnection -> recorder"], env=hm.patched_qpack, budget_s=280, max_decisions=1200))
        obs.append(Ob("C16.h3.%s.datagram" % role, h3_datagram(role, 10), shims, enc, bounds="every datagram payload of length <= 10", env=hm.patched_qpack, budget_s=200))
        obs.append(Ob("C16.h0.%s" % role, h0_stream(role, 6 if T else 5), shims, ["aioquic.h0.connection.H0Connection.handle_event"], bounds="every byte string of length <= %d in two pieces, with or without FIN" % (6 if T else 5), budget_s=900 if T else 280, max_decisions=900))
    return obs
