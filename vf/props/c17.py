"""C17 -- wire codecs round-trip and agree with an independent codec.

C level (ll2smt): vf/props/c17c.py.  Python level (symx over the twin Buffer):
ACK frames, packet headers, Retry / Version Negotiation, transport parameters,
retry tokens; TLS messages are in vf/props/c17tls.py.
"""
from __future__ import annotations

from .. import symx as sx
from ..runner import Ob
from ..twinbuf import TwinBuffer
from . import c17c, c17tls

ASSUMPTIONS = c17tls.ASSUMPTIONS + [
    "the twin Buffer (vf/twinbuf.py) stands in for the C Buffer in the Python-level obligations; it is checked against the C code by differential selftest and the C functions themselves are decided against the RFC encodings by C17.c.*",
    "AES-GCM (retry integrity tag) and RSA-OAEP (retry token) are ideal: uninterpreted tag, identity cipher",
]

V62 = (1 << 62) - 1


def _pk():
    import aioquic.quic.packet as pk

    return pk


def shims_packet():
    import aioquic.quic.packet as pk
    import aioquic.quic.rangeset as rs

    return {pk: ["len", "range", ("Buffer", TwinBuffer), ("PARAMS", sx.SymKeyDict(pk.PARAMS))], rs: ["range", "min", "max", "len"]}


# ------------------------------------------------------------ reference codec
def ref_push_varint(buf, v):
    """RFC 9000 section 16, written from the RFC with fixed-width big-endian pushes only"""
    if sx.truth(v <= 0x3F):
        buf.push_uint8(v)
    elif sx.truth(v <= 0x3FFF):
        buf.push_uint16(v + 0x4000)
    elif sx.truth(v <= 0x3FFFFFFF):
        buf.push_uint32(v + 0x80000000)
    else:
        buf.push_uint64(v + 0xC000000000000000)


def ref_pull_varint(buf):
    first = buf.pull_uint8()
    pre = first // 64
    v = first % 64
    n = 1 if sx.truth(pre == 0) else 2 if sx.truth(pre == 1) else 4 if sx.truth(pre == 2) else 8
    for _ in range(n - 1):
        v = v * 256 + buf.pull_uint8()
    return v


# ------------------------------------------------------------ ACK frames
def ack_roundtrip(k):
    def run():
        pk = _pk()
        from aioquic.quic.rangeset import RangeSet

        Buffer = sx.BufferClass()
        rs = RangeSet()
        ranges = []
        prev_stop = None
        for i in range(k):
            if prev_stop is None:
                a = sx.Int("a%d" % i, 0, V62)
            else:
                gap = sx.Int("gap%d" % i, 1, V62)
                a = prev_stop + gap
            n = sx.Int("n%d" % i, 1, V62)
            b = a + n
            sx.assume(b <= V62 + 1)
            rs.add(a, b)
            ranges.append((a, b))
            prev_stop = b
        delay = sx.Int("delay", 0, V62)
        buf = Buffer(capacity=16 + 16 * k)
        cnt = pk.push_ack_frame(buf, rs, delay)
        sx.check(cnt == k, "push_ack_frame returns a wrong range count")
        data = buf.data
        # independent encoder, RFC 9000 section 19.3
        ref = Buffer(capacity=16 + 16 * k)
        ref_push_varint(ref, ranges[-1][1] - 1)  # largest acknowledged
        ref_push_varint(ref, delay)
        ref_push_varint(ref, k - 1)  # ACK range count
        ref_push_varint(ref, ranges[-1][1] - 1 - ranges[-1][0])  # first ACK range
        for i in range(k - 2, -1, -1):
            ref_push_varint(ref, ranges[i + 1][0] - ranges[i][1] - 1)  # gap
            ref_push_varint(ref, ranges[i][1] - 1 - ranges[i][0])  # ACK range length
        sx.check_bytes_eq(data, ref.data, "ACK frame bytes differ from the RFC 9000 s19.3 encoding")
        rs2, delay2 = pk.pull_ack_frame(Buffer(data=data))
        sx.check(delay2 == delay, "ACK delay does not round-trip")
        sx.check(len(rs2) == k, "ACK range count does not round-trip")
        for i in range(min(k, len(rs2))):
            sx.check(sx.And(rs2[i].start == ranges[i][0], rs2[i].stop == ranges[i][1]), "ACK range does not round-trip")

    return run


def ack_arbitrary(maxlen):
    """arbitrary bytes: decoding raises BufferReadError or yields a range set that re-encodes to
    bytes decoding to the same value; the decoder never reads past the frame it reports"""

    def run():
        pk = _pk()
        from aioquic.buffer import BufferReadError

        Buffer = sx.BufferClass()
        data = sx.Bytes("d", maxlen)
        buf = Buffer(data=data)
        try:
            rs, delay = pk.pull_ack_frame(buf)
        except BufferReadError:
            sx.reached()
            return
        except AssertionError:
            sx.reached()  # RangeSet.add(stop <= start) cannot happen for non-negative counts; kept visible
            sx.fail("assertion escaped from pull_ack_frame")
        used = buf.tell()
        # independent decode of the same bytes
        rb = Buffer(data=data)
        largest = ref_pull_varint(rb)
        d2 = ref_pull_varint(rb)
        cnt = ref_pull_varint(rb)
        first = ref_pull_varint(rb)
        sx.check(delay == d2, "decoded ACK delay differs from the reference decoder")
        top = rs[len(rs) - 1]
        # ranges may merge when gaps are zero-width in packet-number space only if they touch; check membership of the largest
        sx.check(sx.And(top.stop >= largest + 1), "largest acknowledged missing from the decoded set")
        smallest = largest - first
        inside = sx.Or(*[sx.And(r.start <= smallest, smallest < r.stop) for r in rs])
        sx.check(inside, "first ACK range not covered by the decoded set")
        sx.check(used <= sx.length_of(data), "decoder position beyond the input")

    return run


# ------------------------------------------------------------ packet headers
def header_arbitrary(maxlen):
    def run():
        pk = _pk()
        Buffer = sx.BufferClass()
        data = sx.Bytes("d", maxlen)
        host_len = sx.Int("hcl", 0, 20)
        buf = Buffer(data=data)
        n = sx.length_of(data)
        try:
            h = pk.pull_quic_header(buf, host_cid_length=host_len)
        except ValueError:
            sx.reached()
            return
        sx.check(sx.And(h.packet_length >= 1, h.packet_length <= n), "packet_length outside [1, datagram length]")
        sx.check(sx.length_of(h.destination_cid) <= 20, "destination CID longer than 20 bytes")
        sx.check(sx.length_of(h.source_cid) <= 20, "source CID longer than 20 bytes")
        sx.check(buf.tell() <= n, "header parser position beyond the datagram")
        sx.check(buf.tell() <= h.packet_length, "header parser consumed more than the packet it reports")
        if h.packet_type == pk.QuicPacketType.RETRY:
            sx.check(sx.length_of(h.integrity_tag) == 16, "Retry integrity tag is not 16 bytes")
        # decoding the reported packet alone gives the same header (idempotent)
        if h.packet_type != pk.QuicPacketType.ONE_RTT and h.packet_type != pk.QuicPacketType.VERSION_NEGOTIATION and h.packet_type != pk.QuicPacketType.RETRY:
            h2 = pk.pull_quic_header(Buffer(data=data[: h.packet_length]), host_cid_length=host_len)
            sx.check_same(h2, h, "re-decoding the reported packet")

    return run


def retry_roundtrip():
    def run():
        pk = _pk()
        Buffer = sx.BufferClass()
        version = [pk.QuicProtocolVersion.VERSION_1, pk.QuicProtocolVersion.VERSION_2][sx.Choice("ver", 2)]
        scid = sx.Bytes("scid", 20)
        dcid = sx.Bytes("dcid", 20)
        odcid = sx.Bytes("odcid", 20)
        token = sx.Bytes("token", 24)
        unused = sx.Int("unused", 0, 15)
        pkt = pk.encode_quic_retry(version=version, source_cid=scid, destination_cid=dcid, original_destination_cid=odcid, retry_token=token, unused=unused)
        h = pk.pull_quic_header(Buffer(data=pkt), host_cid_length=8)
        sx.check(h.packet_type == pk.QuicPacketType.RETRY, "Retry packet type does not round-trip")
        sx.check(h.version == version, "Retry version does not round-trip")
        sx.check_bytes_eq(h.destination_cid, dcid, "Retry destination CID")
        sx.check_bytes_eq(h.source_cid, scid, "Retry source CID")
        sx.check_bytes_eq(h.token, token, "Retry token")
        sx.check(h.packet_length == sx.length_of(pkt), "Retry packet length")
        sx.check(sx.length_of(h.integrity_tag) == 16, "Retry tag length")
        # layout, RFC 9000 s17.2.5 / RFC 9369 s3.2
        ref = Buffer(capacity=7 + 20 + 20 + 24 + 16)
        first = 0xC0 + (3 if version == pk.QuicProtocolVersion.VERSION_1 else 0) * 16 + unused
        ref.push_uint8(first)
        ref.push_uint32(int(version))
        ref.push_uint8(sx.length_of(dcid))
        ref.push_bytes(dcid)
        ref.push_uint8(sx.length_of(scid))
        ref.push_bytes(scid)
        ref.push_bytes(token)
        sx.check_bytes_eq(pkt[: sx.length_of(pkt) - 16], ref.data, "Retry packet bytes differ from the RFC layout")

    return run


def vn_roundtrip(k):
    def run():
        pk = _pk()
        Buffer = sx.BufferClass()
        scid = sx.Bytes("scid", 20)
        dcid = sx.Bytes("dcid", 20)
        versions = [sx.Int("v%d" % i, 0, (1 << 32) - 1) for i in range(k)]
        pkt = pk.encode_quic_version_negotiation(source_cid=scid, destination_cid=dcid, supported_versions=versions)
        h = pk.pull_quic_header(Buffer(data=pkt), host_cid_length=8)
        sx.check(h.packet_type == pk.QuicPacketType.VERSION_NEGOTIATION, "VN packet type")
        sx.check_bytes_eq(h.destination_cid, dcid, "VN destination CID")
        sx.check_bytes_eq(h.source_cid, scid, "VN source CID")
        sx.check_same(list(h.supported_versions), versions, "VN supported versions")
        sx.check(h.packet_length == 7 + sx.length_of(scid) + sx.length_of(dcid) + 4 * k, "VN packet length")

    return run


class _Urandom:
    """os stand-in for encode_quic_version_negotiation: arbitrary random byte"""

    @staticmethod
    def urandom(n):
        return sx.Bytes("urandom", n, n)


def _fake_tag(packet_without_tag, original_destination_cid, version):
    return sx.Bytes("retry_tag", 16, 16)


def shims_hdr():
    import aioquic.quic.packet as pk

    s = shims_packet()
    s[pk] = s[pk] + [("os", _Urandom), ("get_retry_integrity_tag", _fake_tag)]
    return s


# ------------------------------------------------------------ transport parameters
INT_PARAMS = ["max_idle_timeout", "max_udp_payload_size", "initial_max_data", "initial_max_stream_data_bidi_local", "initial_max_stream_data_bidi_remote", "initial_max_stream_data_uni", "initial_max_streams_bidi", "initial_max_streams_uni", "ack_delay_exponent", "max_ack_delay", "active_connection_id_limit", "max_datagram_frame_size"]
BYTES_PARAMS = ["original_destination_connection_id", "stateless_reset_token", "initial_source_connection_id", "retry_source_connection_id", "quantum_readiness"]


def tp_roundtrip(group):
    """group selects which parameters may be present (keeps the path count per obligation small)"""

    def run():
        pk = _pk()
        Buffer = sx.BufferClass()
        p = pk.QuicTransportParameters()
        expect = []  # (id, kind, value) in PARAMS order
        names = {v[0]: k for k, v in pk.PARAMS.items()}
        for name in group:
            if not sx.Bool("has_" + name):
                continue
            if name in INT_PARAMS:
                v = sx.Int(name, 0, V62)
            elif name in BYTES_PARAMS:
                v = sx.Bytes(name, 6)
            elif name == "disable_active_migration":
                v = True
            elif name == "version_information":
                nv = sx.Choice("n_av", 3)
                v = pk.QuicVersionInformation(chosen_version=sx.Int("chosen", 1, (1 << 32) - 1), available_versions=[sx.Int("av%d" % i, 1, (1 << 32) - 1) for i in range(nv)])
            setattr(p, name, v)
        buf = Buffer(capacity=512)
        pk.push_quic_transport_parameters(buf, p)
        data = buf.data
        # independent encoding: id, length, value in registry order (RFC 9000 s18)
        ref = Buffer(capacity=512)
        for pid, (name, typ) in pk.PARAMS.items():
            v = getattr(p, name)
            if v is None or v is False or name not in group:
                continue
            ref_push_varint(ref, pid)
            if name in INT_PARAMS:
                tmp = Buffer(capacity=8)
                ref_push_varint(tmp, v)
                ref_push_varint(ref, tmp.tell())
                ref.push_bytes(tmp.data)
            elif name in BYTES_PARAMS:
                ref_push_varint(ref, sx.length_of(v))
                ref.push_bytes(v)
            elif name == "disable_active_migration":
                ref_push_varint(ref, 0)
            elif name == "version_information":
                ref_push_varint(ref, 4 + 4 * len(v.available_versions))
                ref.push_uint32(v.chosen_version)
                for av in v.available_versions:
                    ref.push_uint32(av)
        sx.check_bytes_eq(data, ref.data, "transport parameter bytes differ from the RFC 9000 s18 encoding")
        p2 = pk.pull_quic_transport_parameters(Buffer(data=data))
        sx.check_same(p2, p, "transport parameters round trip")

    return run


def tp_arbitrary(maxlen):
    """differential: arbitrary bytes through the implementation and a reference TLV decoder"""

    def run():
        pk = _pk()
        Buffer = sx.BufferClass()
        data = sx.Bytes("d", maxlen)
        n = sx.length_of(data)
        # reference: sequence of (id, length, value); every known value must fill its declared length exactly
        ok = True
        rb = Buffer(data=data)
        ref = {}
        try:
            while not rb.eof():
                pid = ref_pull_varint(rb)
                ln = ref_pull_varint(rb)
                start = rb.tell()
                if sx.truth(start + ln > n):
                    ok = False
                    break
                val = Buffer(data=data[start : start + ln])
                name = None
                for k, (nm, typ) in pk.PARAMS.items():
                    if sx.truth(pid == k):
                        name, ptype = nm, typ
                        break
                if name is None:
                    pass
                elif ptype is int:
                    x = ref_pull_varint(val)
                    if not val.eof():
                        ok = False
                        break
                    ref[name] = x
                elif ptype is bytes:
                    ref[name] = data[start : start + ln]
                elif ptype is bool:
                    if sx.truth(ln != 0):
                        ok = False
                        break
                    ref[name] = True
                elif name == "version_information":
                    if sx.truth(ln < 4) or sx.truth(ln % 4 != 0):
                        ok = False
                        break
                    vs = [val.pull_uint32() for _ in range(sx.concretize(ln // 4))]
                    if any(sx.truth(x == 0) for x in vs):
                        ok = False
                        break
                    ref[name] = vs
                else:  # preferred_address: fixed layout 4+2+16+2+1+cid+16
                    if sx.truth(ln < 41):
                        ok = False
                        break
                    val.seek(24)
                    cl = val.pull_uint8()
                    if sx.truth(ln != 41 + cl):
                        ok = False
                        break
                    ref[name] = "preferred_address"
                rb.seek(start + ln)
        except ValueError:
            ok = False
        try:
            p = pk.pull_quic_transport_parameters(Buffer(data=data))
        except ValueError:
            sx.reached()
            if ok:
                # the documented error on input the reference accepts is only legitimate for ipaddress quirks (none: all 4/16 byte strings are valid)
                sx.fail("well-formed transport parameters rejected")
            return
        if not ok:
            sx.fail("malformed transport parameters accepted (a value does not fill its declared length, or the declared length runs past the input)")
        for name, x in ref.items():
            got = getattr(p, name)
            if name == "version_information":
                sx.check_same([got.chosen_version] + list(got.available_versions), x, "version_information differs from the reference decoder")
            elif name == "preferred_address":
                sx.check(got is not None, "preferred_address dropped")
            else:
                sx.check_same(got, x, "parameter %s differs from the reference decoder" % name)

    return run


# ------------------------------------------------------------ retry token
def retry_token():
    def run():
        import aioquic.quic.retry as rt

        h = rt.QuicRetryTokenHandler.__new__(rt.QuicRetryTokenHandler)
        h._key = _IdealRSA()
        port = sx.Int("port", 0, 65535)
        port2 = sx.Int("port2", 0, 65535)
        odcid = sx.Bytes("odcid", 20)
        rscid = sx.Bytes("rscid", 20)
        tok = h.create_token(("1.2.3.4", port), odcid, rscid)
        o2, r2 = h.validate_token(("1.2.3.4", port), tok)
        sx.check_bytes_eq(o2, odcid, "token original destination CID")
        sx.check_bytes_eq(r2, rscid, "token retry source CID")
        try:
            h.validate_token(("1.2.3.4", port2), tok)
            accepted = True
        except ValueError:
            accepted = False
        sx.check(accepted == sx.truth(port2 == port), "token accepted for a different address / rejected for the same")
        try:
            h.validate_token(("1.2.3.5", port), tok)
            sx.fail("token accepted for a different host")
        except ValueError:
            pass

    return run


class _IdealRSA:
    """identity cipher standing in for RSA-OAEP"""

    def public_key(self):
        return self

    def encrypt(self, data, pad):
        return data

    def decrypt(self, data, pad):
        return data


def shims_retry():
    import aioquic.quic.retry as rt
    import aioquic.tls as tls

    return {rt: ["len", "bytes", ("Buffer", TwinBuffer)], tls: ["int", "len", "bytes"]}


ENC_PK = "aioquic.quic.packet."


def obligations(tier):
    T = tier == "thorough"
    obs = list(c17c.obligations(tier))
    for k in ([1, 2] if not T else [1, 2, 3]):
        obs.append(Ob("C17.ack.rt%d" % k, ack_roundtrip(k), shims_packet, [ENC_PK + "push_ack_frame", ENC_PK + "pull_ack_frame", "aioquic.quic.rangeset.RangeSet.add"], bounds="%d ranges, every bound and delay in [0, 2^62)" % k, budget_s=3000 if T else 280))
    obs.append(Ob("C17.ack.arbitrary", ack_arbitrary(14 if T else 10), shims_packet, [ENC_PK + "pull_ack_frame"], bounds="every byte string of length <= %d" % (14 if T else 10), budget_s=1200 if T else 240, max_decisions=900))
    obs.append(Ob("C17.hdr.arbitrary", header_arbitrary(64 if T else 40), shims_hdr, [ENC_PK + "pull_quic_header"], bounds="every datagram of length <= %d, host CID length 0..20" % (64 if T else 40), budget_s=1500 if T else 280, max_decisions=900))
    obs.append(Ob("C17.hdr.retry", retry_roundtrip(), shims_hdr, [ENC_PK + "encode_quic_retry", ENC_PK + "pull_quic_header"], bounds="both versions, CID lengths 0..20, token length 0..24, unused bits 0..15", stubs=["get_retry_integrity_tag -> 16 uninterpreted bytes"], budget_s=600))
    for k in ([0, 2] if not T else [0, 1, 2, 4]):
        obs.append(Ob("C17.hdr.vn%d" % k, vn_roundtrip(k), shims_hdr, [ENC_PK + "encode_quic_version_negotiation", ENC_PK + "pull_quic_header"], bounds="%d versions (any 32-bit values), CID lengths 0..20" % k, stubs=["os.urandom -> symbolic byte"], budget_s=600))
    groups = [INT_PARAMS[:4], INT_PARAMS[4:8], INT_PARAMS[8:], BYTES_PARAMS[:3], BYTES_PARAMS[3:] + ["disable_active_migration", "version_information"]]
    for gi, g in enumerate(groups):
        obs.append(Ob("C17.tp.rt%d" % gi, tp_roundtrip(g), shims_packet, [ENC_PK + "push_quic_transport_parameters", ENC_PK + "pull_quic_transport_parameters", ENC_PK + "pull_quic_version_information", ENC_PK + "push_quic_version_information"], bounds="every subset of {%s}; integers in [0,2^62), byte strings of length <= 6, <= 2 available versions" % ", ".join(g), outside="preferred_address (ipaddress module)", budget_s=900 if T else 280))
    obs.append(Ob("C17.tp.arbitrary", tp_arbitrary(8 if T else 5), shims_packet, [ENC_PK + "pull_quic_transport_parameters", ENC_PK + "pull_quic_preferred_address", ENC_PK + "pull_quic_version_information"], bounds="every byte string of length <= %d" % (8 if T else 5), budget_s=3000 if T else 280, max_decisions=900))
    obs.append(Ob("C17.retrytoken", retry_token(), shims_retry, ["aioquic.quic.retry.QuicRetryTokenHandler.create_token", "aioquic.quic.retry.QuicRetryTokenHandler.validate_token", "aioquic.quic.retry.encode_address"], bounds="CID lengths 0..20, any ports", stubs=["RSA-OAEP -> identity"], budget_s=300))
    obs += c17tls.obligations(tier)
    return obs
