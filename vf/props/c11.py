"""C11 -- TLS handshake messages are accepted only in protocol order.

C11.dispatch.<state>   every handshake state x every message type 0..255 (symbolic): the real
                       Context._handle_reassembled_message either runs exactly the handler RFC 8446
                       permits in that state, or raises AlertUnexpectedMessage leaving state and keys alone.
C11.flight.client.*    a key-holding adversary plays the server against the real client Context (ideal
                       cryptography, see vf/tlsmodel.py): after a genuine ServerHello it sends any sequence
                       of <= 6 flight messages, each MACed/signed over the transcript it actually sent.
                       The client may finish only on the legal flight; 1-RTT keys only then.
C11.flight.server.*    the same for the client's second flight against the real server Context.
"""
from __future__ import annotations

from .. import symx as sx
from .. import tlsmodel as tm
from ..runner import Ob

ASSUMPTIONS = [
    "cryptographic primitives are ideal (collision-free hash, unforgeable MAC and signature, ideal key agreement): vf/tlsmodel.py",
    "key exchange group fixed to X25519; certificate keys ECDSA P-256; X.509 path validation (OpenSSL) is not encoded, only the arguments it is called with and the effect of its verdict",
    "flights bounded to 6 messages after ServerHello (client) / 5 messages (server); message bodies are well-formed for their kind (malformed bodies: C17)",
]

P = "aioquic.tls."
ENCODED = [P + n for n in ("Context.handle_message", "Context._handle_reassembled_message", "Context._client_handle_hello", "Context._client_handle_encrypted_extensions", "Context._client_handle_certificate_request", "Context._client_handle_certificate", "Context._client_handle_certificate_verify", "Context._client_handle_finished", "Context._server_handle_hello", "Context._server_handle_certificate", "Context._server_handle_certificate_verify", "Context._server_handle_finished", "Context._server_expect_finished", "Context._check_certificate_verify_signature", "Context._setup_traffic_protection", "Context._client_send_hello", "KeySchedule", "KeyScheduleProxy", "negotiate", "push_message", "hkdf_label", "hkdf_expand_label", "hkdf_extract", "pull_*/push_* handshake codecs")]


def _tls():
    import aioquic.tls as tls

    return tls


def shims():
    from ..twinbuf import TwinBuffer

    tls = _tls()
    return {tls: ["int", "len", "bytes", "range", "isinstance", ("Buffer", TwinBuffer)]}


# ------------------------------------------------------------------ dispatch
def _table(tls):
    S, H = tls.State, tls.HandshakeType
    return {
        S.CLIENT_EXPECT_SERVER_HELLO: {H.SERVER_HELLO: "_client_handle_hello"},
        S.CLIENT_EXPECT_ENCRYPTED_EXTENSIONS: {H.ENCRYPTED_EXTENSIONS: "_client_handle_encrypted_extensions"},
        S.CLIENT_EXPECT_CERTIFICATE_REQUEST_OR_CERTIFICATE: {H.CERTIFICATE_REQUEST: "_client_handle_certificate_request", H.CERTIFICATE: "_client_handle_certificate"},
        S.CLIENT_EXPECT_CERTIFICATE: {H.CERTIFICATE: "_client_handle_certificate"},
        S.CLIENT_EXPECT_CERTIFICATE_VERIFY: {H.CERTIFICATE_VERIFY: "_client_handle_certificate_verify"},
        S.CLIENT_EXPECT_FINISHED: {H.FINISHED: "_client_handle_finished"},
        S.CLIENT_POST_HANDSHAKE: {H.NEW_SESSION_TICKET: "_client_handle_new_session_ticket"},
        S.SERVER_EXPECT_CLIENT_HELLO: {H.CLIENT_HELLO: "_server_handle_hello"},
        S.SERVER_EXPECT_CERTIFICATE: {H.CERTIFICATE: "_server_handle_certificate"},
        S.SERVER_EXPECT_CERTIFICATE_VERIFY: {H.CERTIFICATE_VERIFY: "_server_handle_certificate_verify"},
        S.SERVER_EXPECT_FINISHED: {H.FINISHED: "_server_handle_finished"},
        S.SERVER_POST_HANDSHAKE: {},
    }


HANDLERS = ["_client_handle_hello", "_client_handle_encrypted_extensions", "_client_handle_certificate_request", "_client_handle_certificate", "_client_handle_certificate_verify", "_client_handle_finished", "_client_handle_new_session_ticket", "_server_handle_hello", "_server_handle_certificate", "_server_handle_certificate_verify", "_server_handle_finished"]


def dispatch(state_name):
    def run():
        tls = _tls()
        state = tls.State[state_name]
        legal = _table(tls)[state]
        ctx = tls.Context(is_client=state_name.startswith("CLIENT"))
        ctx.state = state
        called = []
        for h in HANDLERS:

            def rec(input_buf, *a, _h=h, **k):
                called.append(_h)
                input_buf.seek(input_buf.capacity)  # a handler consumes its message

            setattr(ctx, h, rec)
        keys = tm.KeyLog()
        ctx.update_traffic_key_cb = keys
        t = sx.Int("message_type", 0, 255)
        B = sx.BufferClass()
        alert = None
        try:
            # through the public entry point: one complete, empty-bodied message of type t
            if sx.E.mode == "replay":
                data = bytes([t, 0, 0, 0])
            else:
                data = sx.SymBytes.from_items([sx._z(t), 0, 0, 0])
            ctx.handle_message(data, tm.bufs(tls, B))
        except tls.Alert as exc:
            alert = exc
        for ty, h in legal.items():
            if t == int(ty):
                sx.check(alert is None and called == [h], "state %s: permitted message type %s was not handed to %s (alert=%r called=%r)" % (state_name, ty.name, h, alert, called))
                return
        sx.check(isinstance(alert, tls.AlertUnexpectedMessage), "state %s: message type %s not permitted by TLS 1.3 here was not refused with unexpected_message (alert=%r, handlers run=%r)" % (state_name, t, alert, called))
        sx.check(called == [] and ctx.state == state and not keys.calls, "state %s: refused message type %s changed state or keys" % (state_name, t))

    return run


# ------------------------------------------------------------------ adversaries
class ServerAdversary:
    """plays the server, knows every key it needs (own DH share, own certificates, the PSK)"""

    def __init__(self, tls, B, ch, cipher_suite, psk_secret=None):
        self.tls, self.B = tls, B
        ks = self.ks = tls.KeySchedule(cipher_suite)
        ks.extract(psk_secret)
        ks.update_hash(ch)
        hello = tls.pull_client_hello(B(data=ch))
        share = [k for k in hello.key_share if k[0] == tls.Group.X25519][0]
        priv = tls.x25519.X25519PrivateKey.generate()
        shared = priv.exchange(tls.x25519.X25519PublicKey.from_public_bytes(share[1]))
        sh = tls.ServerHello(random=bytes(range(32)), legacy_session_id=hello.legacy_session_id, cipher_suite=cipher_suite, compression_method=tls.CompressionMethod.NULL, key_share=tls.encode_public_key(priv.public_key()), pre_shared_key=(0 if psk_secret is not None else None), supported_version=tls.TLS_VERSION_1_3)
        buf = B(capacity=512)
        tls.push_server_hello(buf, sh)
        self.server_hello = buf.data
        ks.update_hash(self.server_hello)
        ks.extract(shared)
        self.mac_key = ks.derive_secret(b"s hs traffic")
        self.context_string = tls.SERVER_CONTEXT_STRING

    def message(self, kind, ident=None):
        tls = self.tls
        buf = self.B(capacity=2048)
        alg = tls.SignatureAlgorithm.ECDSA_SECP256R1_SHA256
        if kind == "EE":
            tls.push_encrypted_extensions(buf, tls.EncryptedExtensions(alpn_protocol=None, early_data=False, other_extensions=[]))
        elif kind == "CR":
            tls.push_certificate_request(buf, tls.CertificateRequest(request_context=b"", signature_algorithms=[alg]))
        elif kind == "CERT":
            tls.push_certificate(buf, tls.Certificate(request_context=b"", certificates=[(ident.cert.public_bytes(tls.Encoding.DER), b"")]))
        elif kind == "CERT_EMPTY":
            tls.push_certificate(buf, tls.Certificate(request_context=b"", certificates=[]))
        elif kind == "CV":
            sig = ident.key.sign(self.ks.certificate_verify_data(self.context_string), *tls.signature_algorithm_params(alg))
            tls.push_certificate_verify(buf, tls.CertificateVerify(algorithm=alg, signature=sig))
        elif kind == "CV_BAD":
            tls.push_certificate_verify(buf, tls.CertificateVerify(algorithm=alg, signature=bytes(64)))
        elif kind == "FIN":
            tls.push_finished(buf, tls.Finished(verify_data=self.ks.finished_verify_data(self.mac_key)))
        else:
            raise AssertionError(kind)
        m = buf.data
        self.ks.update_hash(m)
        return m


class ClientAdversary(ServerAdversary):
    """plays the client after an honest first flight: mirrors the key schedule and forges the second flight"""

    def __init__(self, tls, B, client, ch, server_hello, server_flight, cipher_suite):
        self.tls, self.B = tls, B
        ks = self.ks = tls.KeySchedule(cipher_suite)
        ks.extract(None)
        ks.update_hash(ch)
        ks.update_hash(server_hello)
        sh = tls.pull_server_hello(B(data=server_hello))
        shared = client._x25519_private_key.exchange(tls.x25519.X25519PublicKey.from_public_bytes(sh.key_share[1]))
        ks.extract(shared)
        self.mac_key = ks.derive_secret(b"c hs traffic")
        for m in server_flight:
            ks.update_hash(m)
        self.context_string = tls.CLIENT_CONTEXT_STRING


def _type_of(tls, kind):
    H = tls.HandshakeType
    return {"EE": H.ENCRYPTED_EXTENSIONS, "CR": H.CERTIFICATE_REQUEST, "CERT": H.CERTIFICATE, "CERT_EMPTY": H.CERTIFICATE, "CV": H.CERTIFICATE_VERIFY, "CV_BAD": H.CERTIFICATE_VERIFY, "FIN": H.FINISHED}[kind]


def _feed(tls, ctx, msg, out):
    """deliver one message; returns the refusal (exception) or None"""
    try:
        ctx.handle_message(msg, out)
    except tls.Alert as exc:
        return exc
    except (ValueError, TypeError, KeyError, IndexError, AssertionError) as exc:  # the connection layer treats these as fatal too
        return exc
    return None


CIPHER = 0x1301


def client_flight(menu, psk="none", max_len=6, server_name=tm.NAME, client_cert=False):
    """menu: list of (kind, identity label | None) the adversary may send after ServerHello.
    psk: none | selected | offered (offered by the client, not selected by the server)"""

    def run():
        tm.path_reset()
        tls = _tls()
        B = sx.BufferClass()
        Pv = tm.provider()
        cs = tls.CipherSuite(CIPHER)
        ticket = Pv.ticket(tls, cs) if psk != "none" else None
        client = tm.make_client(tls, Pv, server_name=server_name, ticket=ticket, client_cert=client_cert)
        out = tm.bufs(tls, B)
        client.handle_message(b"", out)
        ch = out[tls.Epoch.INITIAL].data
        adv = ServerAdversary(tls, B, ch, cs, psk_secret=(ticket.resumption_secret if psk == "selected" else None))
        out = tm.bufs(tls, B)
        r = _feed(tls, client, adv.server_hello, out)
        sx.check(r is None and client.state == tls.State.CLIENT_EXPECT_ENCRYPTED_EXTENSIONS, "genuine ServerHello refused: %r" % (r,))
        sx.check(not client.keylog.has(tls.Direction.ENCRYPT, tls.Epoch.ONE_RTT) and not client.keylog.has(tls.Direction.DECRYPT, tls.Epoch.ONE_RTT), "1-RTT keys released before the server flight")
        table = _table(tls)
        accepted = []
        resumed = psk == "selected"

        def legal_complete(acc):
            if resumed:
                return acc == [("EE", None), ("FIN", None)]
            return acc in ([("EE", None), ("CERT", "valid"), ("CV", "valid"), ("FIN", None)], [("EE", None), ("CR", None), ("CERT", "valid"), ("CV", "valid"), ("FIN", None)])

        for step in range(max_len):
            if step and not sx.Bool("more%d" % step):
                break
            k = sx.Choice("kind%d" % step, len(menu))
            kind, lab = menu[k]
            ident = getattr(Pv, lab) if lab else None
            msg = adv.message(kind, ident)
            state0, nkeys0 = client.state, len(client.keylog.calls)
            r = _feed(tls, client, msg, out)
            if r is not None:
                if _type_of(tls, kind) not in table[state0]:
                    sx.check(isinstance(r, tls.AlertUnexpectedMessage), "%s in state %s refused with %r instead of unexpected_message" % (kind, state0.name, r))
                if isinstance(r, tls.AlertUnexpectedMessage):
                    sx.check(client.state == state0 and len(client.keylog.calls) == nkeys0, "refused %s changed state or installed keys" % kind)
                sx.check(client.state != tls.State.CLIENT_POST_HANDSHAKE, "client completed while refusing %s" % kind)
                break
            sx.check(_type_of(tls, kind) in table[state0], "%s accepted in state %s" % (kind, state0.name))
            accepted.append((kind, lab))
            one_rtt = client.keylog.has(tls.Direction.ENCRYPT, tls.Epoch.ONE_RTT) or client.keylog.has(tls.Direction.DECRYPT, tls.Epoch.ONE_RTT)
            done = client.state == tls.State.CLIENT_POST_HANDSHAKE
            if done or one_rtt:
                sx.check(legal_complete(accepted), "client %s after the illegal server flight %s (psk %s, server_name %r)%s" % ("finished" if done else "released 1-RTT keys", " ".join(a + ("(%s)" % b if b else "") for a, b in accepted), psk, server_name, "" if resumed or (("CERT", "valid") in accepted and ("CV", "valid") in accepted) else " without a verified CertificateVerify of a certificate valid for that name"))
                sx.check(client.session_resumed == resumed, "client reports session_resumed=%r but the server %s the PSK" % (client.session_resumed, "selected" if resumed else "did not select"))
                break
        sx.check(client.state == tls.State.CLIENT_POST_HANDSHAKE or not client.keylog.has(tls.Direction.ENCRYPT, tls.Epoch.ONE_RTT), "1-RTT send keys without completion")

    return run


def server_flight(menu, request_cert, max_len=5):
    def run():
        tm.path_reset()
        tls = _tls()
        B = sx.BufferClass()
        Pv = tm.provider()
        cs = tls.CipherSuite(CIPHER)
        client = tm.make_client(tls, Pv)
        server = tm.make_server(tls, Pv, request_client_cert=request_cert)
        cout = tm.bufs(tls, B)
        client.handle_message(b"", cout)
        ch = cout[tls.Epoch.INITIAL].data
        sout = tm.bufs(tls, B)
        r = _feed(tls, server, ch, sout)
        sx.check(r is None, "honest ClientHello refused: %r" % (r,))
        sh = sout[tls.Epoch.INITIAL].data
        flight = tm.split_messages(sout[tls.Epoch.HANDSHAKE].data)
        adv = ClientAdversary(tls, B, client, ch, sh, flight, server.key_schedule.cipher_suite)
        sx.check(not server.keylog.has(tls.Direction.DECRYPT, tls.Epoch.ONE_RTT), "server installed 1-RTT receive keys before the client's Finished")
        table = _table(tls)
        accepted = []

        def legal_complete(acc):
            if not request_cert:
                return acc == [("FIN", None)]
            return acc in ([("CERT_EMPTY", None), ("FIN", None)], [("CERT", "client"), ("CV", "client"), ("FIN", None)])

        out = tm.bufs(tls, B)
        for step in range(max_len):
            if step and not sx.Bool("more%d" % step):
                break
            k = sx.Choice("kind%d" % step, len(menu))
            kind, lab = menu[k]
            ident = getattr(Pv, lab) if lab else None
            msg = adv.message(kind, ident)
            state0, nkeys0 = server.state, len(server.keylog.calls)
            r = _feed(tls, server, msg, out)
            if r is not None:
                if _type_of(tls, kind) not in table[state0]:
                    sx.check(isinstance(r, tls.AlertUnexpectedMessage), "%s in state %s refused with %r instead of unexpected_message" % (kind, state0.name, r))
                if isinstance(r, tls.AlertUnexpectedMessage):
                    sx.check(server.state == state0 and len(server.keylog.calls) == nkeys0, "refused %s changed state or installed keys" % kind)
                sx.check(server.state != tls.State.SERVER_POST_HANDSHAKE, "server completed while refusing %s" % kind)
                break
            sx.check(_type_of(tls, kind) in table[state0], "%s accepted in state %s" % (kind, state0.name))
            accepted.append((kind, lab))
            done = server.state == tls.State.SERVER_POST_HANDSHAKE
            if done or server.keylog.has(tls.Direction.DECRYPT, tls.Epoch.ONE_RTT):
                sx.check(legal_complete(accepted), "server %s after the client flight %s (client certificate %srequested)" % ("finished" if done else "released 1-RTT receive keys", " ".join(a + ("(%s)" % b if b else "") for a, b in accepted), "" if request_cert else "not "))
                break
        sx.check(server.state == tls.State.SERVER_POST_HANDSHAKE or not server.keylog.has(tls.Direction.DECRYPT, tls.Epoch.ONE_RTT), "1-RTT receive keys without completion")

    return run


MENU_ORDER = [("EE", None), ("CR", None), ("CERT", "valid"), ("CERT_EMPTY", None), ("CV", "valid"), ("CV_BAD", None), ("FIN", None)]
MENU_CLIENT = [("EE", None), ("CERT", "client"), ("CERT_EMPTY", None), ("CV", "client"), ("CV_BAD", None), ("FIN", None)]


def obligations(tier):
    T = tier == "thorough"
    tls = _tls()
    obs = []
    for st in tls.State:
        if st == tls.State.CLIENT_HANDSHAKE_START:
            continue  # does not read input: handle_message() sends the ClientHello and returns
        obs.append(Ob("C11.dispatch.%s" % st.name.lower(), dispatch(st.name), shims, [P + "Context.handle_message", P + "Context._handle_reassembled_message"], bounds="message type: every value 0..255 (symbolic); message body empty (handlers replaced by recorders)", outside="CLIENT_HANDSHAKE_START consumes no input", budget_s=120))
    flight_bounds = "adversary flight: every sequence of <= %d messages over the menu %s, each MACed/signed over the transcript actually sent; cipher suite TLS_AES_128_GCM_SHA256, X25519"
    nc, ns = (8, 7) if T else (6, 5)
    menu_c = MENU_ORDER + ([("CERT", "wrongname"), ("CV", "wrongname"), ("CERT", "untrusted"), ("CV", "untrusted")] if T else [])
    for psk in ("none", "selected", "offered"):
        for cc in (False, True):
            if cc and psk != "none":
                continue
            obs.append(Ob("C11.flight.client.psk_%s%s" % (psk, ".clientcert" if cc else ""), client_flight(menu_c, psk=psk, max_len=nc, client_cert=cc), shims, ENCODED, bounds=flight_bounds % (nc, [k + ("(%s)" % l if l else "") for k, l in menu_c]) + "; PSK %s" % psk, setup=tm.ideal_crypto, stubs=tm.STUBS, budget_s=900 if T else 420, max_decisions=4000))
    for rq in (False, True):
        obs.append(Ob("C11.flight.server.%s" % ("request_cert" if rq else "no_cert"), server_flight(MENU_CLIENT, rq, max_len=ns), shims, ENCODED, bounds=flight_bounds % (ns, [k for k, _ in MENU_CLIENT]) + "; client certificate %srequested" % ("" if rq else "not "), setup=tm.ideal_crypto, stubs=tm.STUBS, budget_s=900 if T else 420, max_decisions=4000))
    return obs
