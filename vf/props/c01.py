"""C01 -- reliable, ordered, exactly-once stream delivery (data path; packet protection cut out)."""
from __future__ import annotations

from .. import connmodel as cm
from .. import symx as sx
from ..runner import Ob
from . import c05, c10

ASSUMPTIONS = c10.ASSUMPTIONS + ["liveness is claimed only as a bounded fair suffix: after the adversarial steps every pending frame is requested with an unlimited cap and delivered once"]
BIG = (1 << 62) - 1
HUGE = c10.HUGE


def chan(k):
    """real sender and real receiver joined by a channel that drops, duplicates and reorders frames"""

    def run():
        st, rs = c10._mods()
        from aioquic.quic.packet import QuicStreamFrame
        from aioquic.quic.packet_builder import QuicDeliveryState

        W = sx.Fn("W")
        snd = st.QuicStreamSender(stream_id=0, writable=True)
        rcv = st.QuicStreamReceiver(stream_id=0, readable=True)
        n = 0
        fin_written = False
        flight = []  # [offset, stop, fin, data, resolved]
        delivered = 0
        ended = False

        def deliver(f):
            nonlocal delivered, ended
            if len(f) > 5:
                f[5] = True
            before = rcv._buffer_start
            ev = rcv.handle_frame(QuicStreamFrame(offset=f[0], data=f[3], fin=f[2]))
            after = rcv._buffer_start
            got = ev.data if ev is not None else b""
            sx.check(sx.And(after >= before, after <= n), "receiver delivered beyond what was written")
            sx.check_bytes_eq(got, sx.BytesOf(W, before, after - before), "delivered bytes are not the written bytes in order")
            sx.check(sx.length_of(got) == after - before, "delivered length differs from the pointer advance")
            delivered = after
            if ev is not None and ev.end_stream:
                sx.check(fin_written and sx.truth(after == n), "end of stream signalled before all written bytes were delivered")
                ended = True

        for j in range(k):
            op = ["write", "get", "deliver", "ack", "lose"][sx.Choice("op%d" % j, 5)]
            if op == "write":
                if fin_written:
                    continue
                ln = sx.Int("wl%d" % j, 0, BIG)
                fin = sx.Bool("wf%d" % j)
                snd.write(sx.BytesOf(W, n, ln), end_stream=fin)
                n = n + ln
                fin_written = fin
            elif op == "get":
                ms = sx.Int("ms%d" % j, -8, BIG)
                f = snd.get_frame(ms, None)
                if f is not None:
                    flight.append([f.offset, f.offset + sx.length_of(f.data), bool(f.fin), f.data, False, False])
            elif op == "deliver":
                if not flight:
                    continue
                deliver(flight[sx.Choice("d%d" % j, len(flight))])  # any frame ever sent, any number of times
            else:
                # an acknowledgement means the peer has received the frame
                live = [f for f in flight if not f[4] and (op == "lose" or f[5])]
                if not live:
                    continue
                f = live[sx.Choice("r%d" % j, len(live))]
                f[4] = True
                snd.on_data_delivery(QuicDeliveryState.ACKED if op == "ack" else QuicDeliveryState.LOST, f[0], f[1], f[2])
                if op == "ack":
                    pass
        # fair suffix: unresolved frames are lost or delivered; everything pending is sent and delivered once
        for fi, f in enumerate(flight):
            if not f[4]:
                if sx.Bool("suffix_lost%d" % fi):
                    f[4] = True
                    snd.on_data_delivery(QuicDeliveryState.LOST, f[0], f[1], f[2])
                else:
                    deliver(f)
        for _ in range(len(flight) + 3):
            f = snd.get_frame(HUGE, None)
            if f is None:
                break
            deliver([f.offset, f.offset + sx.length_of(f.data), bool(f.fin), f.data, False])
        sx.check(delivered == n, "not every written byte was delivered although the network became fair")
        if fin_written:
            sx.check(ended and rcv.is_finished, "end of stream was not delivered although the network became fair")

    return run


LENS = [0, 2]


def event_ob(role, nframes):
    """STREAM frames of one peer-opened stream delivered in any order / any number of times through the
    real connection: data events are the stream's bytes in order, end of stream is reported at most once"""
    name = "c05_busy_%s" % role

    def prep():
        c05._quiet()
        cm.prepare(name, c05.busy(role))

    def run():
        from aioquic import tls
        from aioquic.quic.events import StreamDataReceived

        c05._quiet()
        p = cm.get(name, role) if sx.E.mode == "sym" else cm.Peer(*c05._replay_pair(role, "busy"))
        conn = p.conn
        sid = 12 + (1 if role == "client" else 0)  # a new peer-initiated bidirectional stream
        sx.register_keys(range(0x40))
        sx.register_keys(list(conn._streams) + list(conn._streams_finished) + [sid])
        S = sx.Fn("S")
        total = sx.Int("total", 0, 40)
        B = sx.BufferClass()
        frames = []
        for j in range(nframes):
            off = sx.Int("off%d" % j, 0, 40)
            k = LENS[sx.Choice("len%d" % j, len(LENS))]
            ln = k
            sx.assume(off + ln <= total)
            fin = sx.truth(off + ln == total) and sx.Bool("fin%d" % j)
            buf = B(capacity=64)
            buf.push_uint8(0x0E | (1 if fin else 0))
            buf.push_uint_var(sid)
            c05.push_v(buf, off)
            buf.push_uint_var(k)
            buf.push_bytes(sx.BytesOf(S, off, k))
            frames.append(buf.data)
        order = [sx.Choice("pick%d" % j, nframes) for j in range(nframes + 1)]  # with repetition: duplicates
        events = []
        t = 1.0
        for idx in order:
            p.deliver(tls.Epoch.ONE_RTT, frames[idx], now=t)
            t += 0.01
            while True:
                ev = conn.next_event()
                if ev is None:
                    break
                events.append(ev)
        sx.check(conn._close_event is None, "duplicated / reordered frames of a well-behaved peer closed the connection")
        pos = 0
        ends = 0
        for ev in events:
            if isinstance(ev, StreamDataReceived) and ev.stream_id == sid:
                ln = sx.length_of(ev.data)
                sx.check_bytes_eq(ev.data, sx.BytesOf(S, pos, ln), "stream data events are not the stream's bytes in order")
                pos = pos + ln
                if ev.end_stream:
                    ends += 1
                    sx.check(pos == total, "end of stream before all bytes")
        sx.check(ends <= 1, "end of stream signalled more than once")

    return prep, run


def complete_ob(role, nparts):
    """the stream's bytes cut into `nparts` consecutive STREAM frames plus a separate empty FIN frame, every
    frame delivered at least once in any order (one duplicate): all bytes arrive in order and the end of the
    stream is reported exactly once -- also when the FIN overtakes the data"""
    name = "c05_busy_%s" % role

    def prep():
        c05._quiet()
        cm.prepare(name, c05.busy(role))

    def run():
        from aioquic import tls
        from aioquic.quic.events import StreamDataReceived

        c05._quiet()
        p = cm.get(name, role) if sx.E.mode == "sym" else cm.Peer(*c05._replay_pair(role, "busy"))
        conn = p.conn
        sid = 12 + (1 if role == "client" else 0)
        sx.register_keys(range(0x40))
        sx.register_keys(list(conn._streams) + list(conn._streams_finished) + [sid])
        S = sx.Fn("S")
        B = sx.BufferClass()
        frames = []
        off = 0
        for j in range(nparts):
            k = [1, 2, 3][sx.Choice("len%d" % j, 3)]
            buf = B(capacity=64)
            buf.push_uint8(0x0E)
            buf.push_uint_var(sid)
            c05.push_v(buf, off)
            buf.push_uint_var(k)
            buf.push_bytes(sx.BytesOf(S, off, k))
            frames.append(buf.data)
            off += k
        total = off
        buf = B(capacity=64)
        buf.push_uint8(0x0F)
        buf.push_uint_var(sid)
        c05.push_v(buf, total)
        buf.push_uint_var(0)
        frames.append(buf.data)
        n = len(frames)
        order = [sx.Choice("pick%d" % j, n) for j in range(n + 1)]
        sx.assume(all(i in order for i in range(n)))
        events = []
        t = 1.0
        for idx in order:
            p.deliver(tls.Epoch.ONE_RTT, frames[idx], now=t)
            t += 0.01
            while True:
                ev = conn.next_event()
                if ev is None:
                    break
                events.append(ev)
        sx.check(conn._close_event is None, "reordered frames of a well-behaved peer closed the connection")
        pos = 0
        ends = 0
        for ev in events:
            if isinstance(ev, StreamDataReceived) and ev.stream_id == sid:
                ln = sx.length_of(ev.data)
                sx.check_bytes_eq(ev.data, sx.BytesOf(S, pos, ln), "stream data events are not the stream's bytes in order")
                pos = pos + ln
                if ev.end_stream:
                    ends += 1
                    sx.check(pos == total, "end of stream before all bytes")
        sx.check(pos == total, "every frame was delivered but only %s of %s bytes reached the application" % (pos, total))
        sx.check(ends == 1, "every frame incl. the FIN was delivered but the end of the stream was reported %d times" % ends)

    return prep, run


def late_ob(role):
    """frames that arrive (again) for a stream that is already finished and discarded are ignored"""
    name = "c05_busy_%s" % role

    def prep():
        c05._quiet()
        cm.prepare(name, c05.busy(role))

    def run():
        from aioquic import tls

        c05._quiet()
        p = cm.get(name, role) if sx.E.mode == "sym" else cm.Peer(*c05._replay_pair(role, "busy"))
        conn = p.conn
        fin = sorted(conn._streams_finished)
        if not fin:
            sx.fail("template has no finished stream")
        sid = fin[sx.Choice("which", len(fin))]
        sx.register_keys(range(0x40))
        sx.register_keys(list(conn._streams) + fin)
        ft = [0x0F, 0x0E, 0x04, 0x11, 0x05, 0x15][sx.Choice("ftype", 6)]
        can_send = (sid % 4 < 2) or ((sid % 2 == 0) == (role == "client"))
        can_recv = (sid % 4 < 2) or ((sid % 2 == 0) != (role == "client"))
        if ft in (0x11, 0x05) and not can_send:
            sx.reached()
            return
        if ft in (0x0F, 0x0E, 0x04, 0x15) and not can_recv:
            sx.reached()
            return
        B = sx.BufferClass()
        buf = B(capacity=64)
        buf.push_uint8(ft)
        buf.push_uint_var(sid)
        if ft in (0x0F, 0x0E):
            c05.push_v(buf, sx.Int("off", 0, 5))
            buf.push_uint_var(2)
            buf.push_bytes(sx.Bytes("d", 2, 2))
        elif ft == 0x04:
            c05.push_v(buf, sx.Int("err", 0, BIG))
            c05.push_v(buf, sx.Int("final", 0, 5))
        elif ft == 0x05:
            c05.push_v(buf, sx.Int("err", 0, BIG))
        else:
            c05.push_v(buf, sx.Int("limit", 0, BIG))
        p.deliver(tls.Epoch.ONE_RTT, buf.data, now=1.0)
        sx.check(conn._close_event is None, "a late frame for a finished stream closed the connection")
        sx.check(conn.next_event() is None, "a late frame for a finished stream produced an event")

    return prep, run


def obligations(tier):
    T = tier == "thorough"
    obs = []
    k = 5 if T else 4
    obs.append(Ob("C01.chan%d" % k, chan(k), c10.shims, c10.ENC_RECV + c10.ENC_SEND, bounds="every sequence of %d channel operations (write any length/FIN, get_frame any cap, deliver any sent frame any number of times, ack/lose any unresolved frame), then a fair suffix" % k, budget_s=2400 if T else 280, max_decisions=900))
    Q = "aioquic.quic.connection.QuicConnection."
    for role in ("client", "server"):
        prep, run = event_ob(role, 3 if T else 2)
        obs.append(Ob("C01.event.%s" % role, run, cm.conn_shims, [Q + "receive_datagram", Q + "_handle_stream_frame", Q + "_get_or_create_stream", "aioquic.quic.stream.QuicStreamReceiver.handle_frame"], bounds="%d STREAM frames (offset <= 40, length 0 or 2, FIN on frames ending at the final size) of one new peer-initiated stream of symbolic total size, delivered in any order with repetition (%d deliveries)" % ((3, 4) if T else (2, 3)), prepare=prep, budget_s=2400 if T else 280, max_decisions=1500, stubs=["CryptoPair -> transparent"]))
        prep, run = complete_ob(role, 3 if T else 2)
        obs.append(Ob("C01.complete.%s" % role, run, cm.conn_shims, [Q + "receive_datagram", Q + "_handle_stream_frame", "aioquic.quic.stream.QuicStreamReceiver.handle_frame"], bounds="a peer-opened stream of %d consecutive STREAM frames of 1-3 symbolic bytes each plus a separate empty FIN frame; every order of delivery with one duplicate in which each frame arrives at least once" % (3 if T else 2), prepare=prep, budget_s=900 if T else 250, max_decisions=1500, stubs=["CryptoPair -> transparent", "tls.Context -> stub"]))
        prep, run = late_ob(role)
        obs.append(Ob("C01.late.%s" % role, run, cm.conn_shims, [Q + "receive_datagram", Q + "_get_or_create_stream"], bounds="one STREAM / RESET_STREAM / MAX_STREAM_DATA / STOP_SENDING / STREAM_DATA_BLOCKED frame with symbolic fields for each finished and discarded stream", prepare=prep, budget_s=280, max_decisions=900, stubs=["CryptoPair -> transparent"]))
    return obs
