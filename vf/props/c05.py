"""C05 -- network input can never make the QUIC/TLS API raise."""
from __future__ import annotations

import logging

from .. import connmodel as cm
from .. import symx as sx
from ..runner import Ob

ASSUMPTIONS = [
    "packet protection is transparent: a key-holding peer can make the decryptor return any payload (DESIGN 3.2); replay seals the counterexample with the peer's real keys",
    "after the handshake, TLS is a nondeterministic stub (accepts or raises an alert) in the frame obligations; TLS message handling itself is covered by the C05.tls obligations",
    "symbolic dict keys: every concrete key later looked up is a registered constant (frame types 0..0x3f, existing stream ids, IntEnum members)",
]

FRAME_LEN = {0x02: 8, 0x03: 9, 0x06: 6, 0x18: 24, 0x1A: 9, 0x1B: 9, 0x1C: 7, 0x1D: 6}


def _quiet():
    logging.getLogger("quic").setLevel(logging.CRITICAL + 1)


def busy(role):
    """a connected endpoint with some history: streams in several states"""

    def build():
        client, server = cm.make_pair()
        client.send_stream_data(0, b"hello", end_stream=True)
        client.send_stream_data(8, b"open", end_stream=False)
        client.send_stream_data(2, b"uni", end_stream=True)
        server.send_stream_data(1, b"srv", end_stream=False)
        server.send_stream_data(3, b"srvuni", end_stream=False)
        for t in (0.2, 0.3):
            cm.transfer(client, server, t)
            cm.transfer(server, client, t)
        server.send_stream_data(0, b"world", end_stream=True)
        client.send_stream_data(4, b"x" * 10, end_stream=True)
        for t in (0.4, 0.5, 0.6):
            cm.transfer(client, server, t)
            cm.transfer(server, client, t)
        cm.drain_events(client)
        cm.drain_events(server)
        return cm.symbolize(client if role == "client" else server)

    return build


def after(conn, now):
    """the timer, transmit and event calls keep returning normally until termination is reported"""
    from aioquic.quic.events import ConnectionTerminated

    terminated = False
    for step in range(3):
        conn.datagrams_to_send(now=now)
        t = conn.get_timer()
        while True:
            ev = conn.next_event()
            if ev is None:
                break
            if isinstance(ev, ConnectionTerminated):
                terminated = True
        if terminated or t is None:
            break
        now = t
        conn.handle_timer(now=now)
    sx.reached()


V62 = (1 << 62) - 1

# field kinds: V varint, B<n> n raw bytes, LV varint length + bytes, L8 one-byte length + bytes, REST bytes to the end
SPECS = {
    0x00: [], 0x01: [], 0x1E: [],
    0x02: "ack", 0x03: "ack_ecn",
    0x04: ["V", "V", "V"], 0x05: ["V", "V"], 0x06: ["V", "LV"], 0x07: ["LV"],
    0x08: ["V", "REST"], 0x09: ["V", "REST"], 0x0A: ["V", "LV"], 0x0B: ["V", "LV"], 0x0C: ["V", "V", "REST"], 0x0D: ["V", "V", "REST"], 0x0E: ["V", "V", "LV"], 0x0F: ["V", "V", "LV"],
    0x10: ["V"], 0x11: ["V", "V"], 0x12: ["V"], 0x13: ["V"], 0x14: ["V"], 0x15: ["V", "V"], 0x16: ["V"], 0x17: ["V"],
    0x18: ["V", "V", "L8", "B16"], 0x19: ["V"], 0x1A: ["B8"], 0x1B: ["B8"], 0x1C: ["V", "V", "LV"], 0x1D: ["V", "LV"],
    0x30: ["REST"], 0x31: ["LV"], 0x21: [],
}
HEAVY_TWICE = {0x06, 0x0B, 0x0F, 0x18, 0x1C}
REPEAT = {0x02, 0x04, 0x05, 0x06, 0x0F, 0x0B, 0x11, 0x18, 0x19, 0x1A, 0x1B, 0x1C}


def push_v(buf, v):
    """varint in its 8-byte form (legal non-minimal encoding: no fork on the magnitude; the other
    encodings are the subject of C17)"""
    buf.push_uint64(v + 0xC000000000000000)


def build_frame(buf, ftype, tag):
    spec = SPECS[ftype]
    buf.push_uint8(ftype)
    if spec in ("ack", "ack_ecn"):
        push_v(buf, sx.Int(tag + "largest", 0, V62))
        push_v(buf, sx.Int(tag + "delay", 0, V62))
        cnt = sx.Choice(tag + "nranges", 3)
        push_v(buf, cnt)
        push_v(buf, sx.Int(tag + "first", 0, V62))
        for k in range(cnt):
            push_v(buf, sx.Int(tag + "gap%d" % k, 0, V62))
            push_v(buf, sx.Int(tag + "len%d" % k, 0, V62))
        if spec == "ack_ecn":
            for k in range(3):
                push_v(buf, sx.Int(tag + "ecn%d" % k, 0, V62))
        return
    for k, f in enumerate(spec):
        nm = "%sf%d" % (tag, k)
        if f == "V":
            push_v(buf, sx.Int(nm, 0, V62))
        elif f.startswith("B"):
            n = int(f[1:])
            buf.push_bytes(sx.Bytes(nm, n, n))
        elif f in ("LV", "L8", "REST"):
            lens = [0, 2] if f != "L8" else [0, 1, 8, 20, 21]
            n = lens[sx.Choice(nm + "_len", len(lens))]
            if f == "LV":
                declared = [n, n + 1, V62][sx.Choice(nm + "_declared", 3)]
                push_v(buf, declared)
            elif f == "L8":
                buf.push_uint8(n)
            buf.push_bytes(sx.Bytes(nm, n, n))


def frame_ob(role, template, ftype, repeat=False):
    name = "c05_%s_%s" % (template, role)

    def prep():
        _quiet()
        cm.prepare(name, busy(role) if template == "busy" else cm.connected_template(role))

    def run():
        from aioquic import tls

        _quiet()
        p = cm.get(name, role) if sx.E.mode == "sym" else cm.Peer(*_replay_pair(role, template))
        conn = p.conn
        sx.register_keys(range(0x40))
        sx.register_keys(list(conn._streams) + list(conn._streams_finished) + [s + 4 * k for s in (0, 1, 2, 3) for k in range(3)])
        B = sx.BufferClass()
        buf = B(capacity=400)
        build_frame(buf, ftype, "a_")
        if repeat:
            build_frame(buf, ftype, "b_")
        elif sx.Bool("then_ping"):
            buf.push_uint8(0x01)
        payload = buf.data
        n = buf.tell()
        cuts = sorted({n, n - 1, 1}) if not repeat else [n]
        cut = cuts[sx.Choice("cut", len(cuts))]
        p.deliver(tls.Epoch.ONE_RTT, payload[:cut], now=1.0)
        after(conn, 1.05)

    return prep, run


def _replay_pair(role, template):
    if template == "busy":
        # rebuild the same history with real keys
        client, server = cm.make_pair()
        client.send_stream_data(0, b"hello", end_stream=True)
        client.send_stream_data(8, b"open", end_stream=False)
        client.send_stream_data(2, b"uni", end_stream=True)
        server.send_stream_data(1, b"srv", end_stream=False)
        server.send_stream_data(3, b"srvuni", end_stream=False)
        for t in (0.2, 0.3):
            cm.transfer(client, server, t)
            cm.transfer(server, client, t)
        server.send_stream_data(0, b"world", end_stream=True)
        client.send_stream_data(4, b"x" * 10, end_stream=True)
        for t in (0.4, 0.5, 0.6):
            cm.transfer(client, server, t)
            cm.transfer(server, client, t)
        cm.drain_events(client)
        cm.drain_events(server)
    else:
        client, server = cm.make_pair()
    return (client, server) if role == "client" else (server, client)


def tp_ob(role):
    """the peer's transport parameters: the decoder yields any parameter set or ValueError (C17.tp);
    applying them may only raise what receive_datagram() converts into a close"""
    name = "c05_fresh_%s" % role

    def prep():
        _quiet()
        cm.prepare(name, cm.connected_template(role))

    holder = {}

    def fake_pull(buf):
        if holder["malformed"]:
            raise ValueError("Transport parameter length does not match")
        return holder["params"]

    def choose_params(conn):
        import aioquic.quic.packet as pk

        holder["malformed"] = sx.Bool("tp_malformed")
        p = pk.QuicTransportParameters()
        for f in ("initial_max_data", "initial_max_stream_data_bidi_local", "initial_max_streams_bidi", "max_datagram_frame_size"):
            setattr(p, f, sx.Int(f, 0, V62))
        for f in ("max_idle_timeout", "max_udp_payload_size", "ack_delay_exponent", "max_ack_delay", "active_connection_id_limit"):
            if sx.Bool("has_" + f):
                setattr(p, f, sx.Int(f, 0, V62))
        expected = {"original_destination_connection_id": conn._original_destination_connection_id, "initial_source_connection_id": conn._remote_initial_source_connection_id, "retry_source_connection_id": conn._retry_source_connection_id}
        for f in expected:
            c = sx.Choice("cid_" + f, 3)
            if c == 1:
                setattr(p, f, sx.Bytes(f, 4, 4))
            elif c == 2:
                setattr(p, f, expected[f])
        if sx.Bool("has_srt"):
            p.stateless_reset_token = bytes(16)
        if sx.Bool("has_vi"):
            p.version_information = pk.QuicVersionInformation(chosen_version=sx.Int("chosen", 1, (1 << 32) - 1), available_versions=[sx.Int("av%d" % i, 1, (1 << 32) - 1) for i in range(sx.Choice("nav", 3))])
        holder["params"] = p
        return p

    def run():
        from aioquic import tls
        from aioquic.buffer import Buffer, BufferReadError
        from aioquic.quic.connection import QuicConnectionError

        _quiet()
        if sx.E.mode == "replay":
            client, server = cm.make_pair()
            conn = client if role == "client" else server
        else:
            conn = cm.get(name, role).conn
        conn._crypto_packet_version = conn._version
        conn._crypto_frame_type = 6
        params = choose_params(conn)
        data = b"\x00"
        if sx.E.mode == "replay":
            import aioquic.quic.packet as pk

            if holder["malformed"]:
                data = b"\x0b\x02\x0a\x00"  # declared length disagrees with the value
            else:
                b = Buffer(capacity=1024)
                pk.push_quic_transport_parameters(b, params)
                data = b.data
        conn.tls.received_extensions = [(tls.ExtensionType.QUIC_TRANSPORT_PARAMETERS, data)] if not sx.Bool("no_tp_extension") else []
        try:
            conn._alpn_handler("h3")
        except (QuicConnectionError, tls.Alert, BufferReadError):
            pass
        sx.reached()

    return prep, run, fake_pull


def hdr_ob(state, n, pad, kind):
    """an arbitrary datagram (n symbolic bytes, optionally zero-padded to 1200) handed to an endpoint in `state`"""
    role = state.split("_")[0]
    name = "c05_fresh_%s" % role

    def prep():
        _quiet()
        if "connected" in state or "closing" in state:
            cm.prepare(name, cm.connected_template(role))

    def run():
        from aioquic.quic.configuration import QuicConfiguration
        from aioquic.quic.connection import QuicConnection

        _quiet()
        cm.DET.n = 0  # connection IDs drawn while exploring must not differ between re-executions of a path
        sx.register_keys([1, 0x6B3343CF, 0])
        sx.register_keys(range(0x40))
        if "connected" in state or "closing" in state:
            if sx.E.mode == "replay":
                client, server = cm.make_pair()
                conn = client if role == "client" else server
            else:
                conn = cm.get(name, role).conn
            if "closing" in state:
                conn.close(error_code=0)
                conn.datagrams_to_send(now=0.9)
        else:
            cfg = QuicConfiguration(is_client=(role == "client"))
            if role == "server":
                import os

                cfg.load_cert_chain(os.path.join(cm.REPO, "tests", "ssl_cert.pem"), os.path.join(cm.REPO, "tests", "ssl_key.pem"))
                conn = QuicConnection(configuration=cfg, original_destination_connection_id=bytes(8))
            else:
                conn = QuicConnection(configuration=cfg)
                if state == "client_firstflight":
                    conn.connect(cm.ADDR_S, now=0.0)
            if state == "server_after_bad_initial":
                # a first Initial that does not authenticate
                bad = bytes([0xC3]) + (1).to_bytes(4, "big") + bytes([8]) + bytes(8) + bytes([8]) + bytes(8) + b"\x00" + (0x4000 | 1174).to_bytes(2, "big") + bytes(1174)
                cm.CryptoErrorChoice.fail_next = True
                conn.receive_datagram(bad, cm.ADDR_C, now=0.5)
                cm.CryptoErrorChoice.fail_next = False
        if kind == "vn":
            # Version Negotiation: version 0 and 1-3 versions filling the datagram exactly (the generic long
            # harness never yields a parsable one: its tail is not a multiple of four bytes)
            dl, sl = 8, [0, 8][sx.Choice("scid_len", 2)]
            nv = 1 + sx.Choice("n_versions", 3)
            m = 7 + dl + sl + 4 * nv
            d = sx.Bytes("d", m, m)
            sx.assume(sx.And(d[0] >= 0x80, d[1] == 0, d[2] == 0, d[3] == 0, d[4] == 0, d[5] == dl, d[6 + dl] == sl))
        elif kind == "long":
            # long header with connection-ID lengths from {0, 8, 20, 21} (every other length is the
            # subject of C17.hdr.arbitrary; here the connection's reaction to the parsed packet matters)
            dl = [0, 8, 20, 21][sx.Choice("dcid_len", 4)]
            sl = [0, 8, 21][sx.Choice("scid_len", 3)]
            m = 7 + dl + sl + 25  # header, token length(+1), length, packet number, 3 payload bytes, tag
            d = sx.Bytes("d", m, m)
            sx.assume(sx.And(d[0] >= 0x80, d[5] == dl, d[6 + dl] == sl))
            if pad:
                # an Initial-sized datagram: no token, a Length field that keeps the first packet short;
                # the zero padding then parses as (invalid) further packets
                pos = 7 + dl + sl
                sx.assume(sx.And(sx.Or(d[1] != 0, d[2] != 0, d[3] != 0, d[4] != 0), d[pos] == 0, d[pos + 1] == 0x40, d[pos + 2] <= 24))
                d = d + bytes(1200 - m)
            elif sx.Bool("truncated"):
                d = d[: m - 20]
        else:
            m = n
            d = sx.Bytes("d", m, m)
            sx.assume(d[0] < 0x80)
            if sx.Bool("truncated"):
                d = d[:12]
        conn.receive_datagram(d, cm.ADDR_C if role == "server" else cm.ADDR_S, now=1.0)
        after(conn, 1.05)

    return prep, run


def hdr_shims():
    return cm.conn_shims(extra=[("CryptoPair", cm.FakeCryptoPair), ("tls", cm.TlsModuleProxy()), ("get_retry_integrity_tag", _fake_retry_tag), ("SMALLEST_MAX_DATAGRAM_SIZE", 1), ("os", cm.DET)])


def _fake_retry_tag(packet_without_tag, original_destination_cid, version):
    """AES-GCM over the pseudo-packet is ideal: the expected tag is 16 arbitrary bytes (so a received
    tag may or may not match)"""
    sx.E.fresh += 1
    return sx.Bytes("retry_tag!%d" % sx.E.fresh, 16, 16)


FRAME_TYPES = [0x00, 0x01, 0x02, 0x03, 0x04, 0x05, 0x06, 0x07, 0x08, 0x09, 0x0A, 0x0B, 0x0C, 0x0D, 0x0E, 0x0F, 0x10, 0x11, 0x12, 0x13, 0x14, 0x15, 0x16, 0x17, 0x18, 0x19, 0x1A, 0x1B, 0x1C, 0x1D, 0x1E, 0x30, 0x31, 0x21]


def obligations(tier):
    T = tier == "thorough"
    Q = "aioquic.quic.connection.QuicConnection."
    enc = [Q + "receive_datagram", Q + "_payload_received", Q + "datagrams_to_send", Q + "get_timer", Q + "handle_timer", Q + "next_event", "aioquic.quic.packet.pull_quic_header"]
    obs = []
    for role in ("client", "server"):
        for ft in FRAME_TYPES:
            for template in (["busy"] if not T else ["busy", "fresh"]):
              for rep in ([False, True] if ft in REPEAT and (T or ft not in HEAVY_TWICE) else [False]):
                prep, run = frame_ob(role, template, ft, rep)
                obs.append(Ob("C05.frame.%s.%s.0x%02x%s" % (role, template, ft, ".twice" if rep else ""), run, cm.conn_shims, enc + [Q + "_handle_*_frame (type 0x%02x)" % ft], bounds="1-RTT packet with one frame of type 0x%02x (twice for state-sharing types, or followed by PING): every varint field over [0, 2^62) (8-byte encoding), byte fields of length 0/2 (CID 0/1/8/20/21) with symbolic content and declared length honest / one too long / 2^62-1, truncated at 3 cut points; delivered to a %s %s endpoint; then transmit/timer/event calls until termination" % (ft, template, role), prepare=prep, budget_s=1500 if T else 420, max_decisions=1500, stubs=["CryptoPair -> transparent", "tls.Context -> nondeterministic stub"]))
    nh = 30 if T else 29
    for state in ("server_fresh", "server_after_bad_initial", "server_connected", "server_closing", "client_firstflight", "client_connected", "client_closing"):
        for kind in ("long", "short"):
            heavy = (kind == "long" and state in ("server_connected", "client_connected", "client_firstflight", "server_fresh", "server_after_bad_initial")) or (kind == "short" and state in ("server_connected", "client_connected"))
            if heavy and not T:
                continue
            prep, run = hdr_ob(state, nh, False, kind)
            obs.append(Ob("C05.hdr.%s.%s" % (state, kind), run, hdr_shims, enc, bounds="every %s-header datagram of %s handed to a %s endpoint (long headers: CID lengths in {0,8,20,21}; the server's 1200-byte Initial size threshold is scaled down to the datagram size used); then transmit/timer/event calls" % (kind, ("header + token/length fields + 3 payload bytes + 16 tag bytes, all arbitrary, or truncated" if kind == "long" else "%d arbitrary bytes, or truncated to 12" % nh), state.replace("_", " ")), prepare=prep, budget_s=2400 if T else 250, max_decisions=1500, stubs=["CryptoPair -> transparent", "tls.Context -> nondeterministic stub", "get_retry_integrity_tag -> arbitrary tag", "SMALLEST_MAX_DATAGRAM_SIZE -> 1 (size threshold abstraction)"]))
    for state in ("client_firstflight", "client_connected"):
        prep, run = hdr_ob(state, nh, False, "vn")
        obs.append(Ob("C05.hdr.%s.vn" % state, run, hdr_shims, enc + [Q + "_receive_version_negotiation_packet"], bounds="every Version Negotiation datagram with the endpoint's destination-ID length, source-ID length 0/8 and 1-3 arbitrary versions (all other bytes arbitrary) handed to a %s endpoint; then transmit/timer/event calls" % state.replace("_", " "), prepare=prep, budget_s=600 if T else 250, max_decisions=1500, stubs=["CryptoPair -> transparent", "tls.Context -> nondeterministic stub"]))
    for role in ("client", "server"):
        prep, run, fake = tp_ob(role)
        obs.append(Ob("C05.tp.%s" % role, run, (lambda fake=fake: cm.conn_shims(extra=[("pull_quic_transport_parameters", fake)])), [Q + "_alpn_handler", Q + "_parse_transport_parameters"], bounds="every transport-parameter set (each integer parameter absent or any value in [0,2^62), each CID parameter absent / arbitrary / the expected value, version_information with <= 2 versions) or a decoding failure", prepare=prep, budget_s=900 if T else 250, max_decisions=900, stubs=["pull_quic_transport_parameters -> any parameter set or ValueError (decided separately by C17.tp.*)"]))
    return obs
