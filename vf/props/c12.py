"""C12 -- acknowledgements are sound and timely."""
from __future__ import annotations

from .. import connmodel as cm
from .. import symx as sx
from ..runner import Ob
from . import c05

ASSUMPTIONS = c05.ASSUMPTIONS[:1] + ["the caller fires the timer when asked: the 'timer' operation calls handle_timer() and datagrams_to_send() at the instant get_timer() returns"]


class AckLog:
    """records, for every ACK frame the connection starts, the ranges it lists and its delivery handler"""

    def __init__(self):
        self.acks = []

    def __enter__(self):
        import aioquic.quic.packet_builder as pb

        self.pb = pb
        self.orig = pb.QuicPacketBuilder.start_frame
        orig, acks = self.orig, self.acks

        def start_frame(builder, frame_type, capacity=1, handler=None, handler_args=[]):
            buf = orig(builder, frame_type, capacity, handler, handler_args)
            if frame_type in (2, 3):
                space = handler_args[0]
                acks.append(([(r.start, r.stop) for r in space.ack_queue], handler, tuple(handler_args)))
            return buf

        pb.QuicPacketBuilder.start_frame = start_frame
        return self

    def __exit__(self, *a):
        self.pb.QuicPacketBuilder.start_frame = self.orig
        return False


def ack_ob(role, nops, prefix=()):
    name = "c05_busy_%s" % role

    def prep():
        c05._quiet()
        cm.prepare(name, c05.busy(role))

    def run():
        from aioquic import tls
        from aioquic.quic.packet_builder import QuicDeliveryState

        c05._quiet()
        p = cm.get(name, role) if sx.E.mode == "sym" else cm.Peer(*c05._replay_pair(role, "busy"))
        conn = p.conn
        space = conn._spaces[tls.Epoch.ONE_RTT]
        sx.register_keys(range(0x40))
        # a quiescent start: everything received so far has been acknowledged and confirmed
        space.ack_queue = type(space.ack_queue)()
        space.ack_at = None
        conn._ack_delay = 0.025
        base = space.expected_packet_number
        R = []  # packet numbers authenticated and processed in this space
        sent_acks = []
        now = 1.0
        pending = None  # (pn, deadline) of an ack-eliciting largest packet awaiting its ACK

        def sound(ranges):
            for a, b in ranges:
                if sx.E.mode == "replay":
                    for x in range(a, b):
                        sx.check(x in R, "ACK frame lists a packet number that was never received and authenticated")
                else:
                    x = sx.SymInt(sx.z3.Int(sx.E.fresh_name("x")))
                    sx.check(sx.Implies(sx.And(a <= x, x < b), sx.Or(*[x == r for r in R]) if R else False), "ACK frame lists a packet number that was never received and authenticated")

        def transmit(t, fire):
            nonlocal pending
            with AckLog() as log:
                if fire:
                    conn.handle_timer(now=t)
                conn.datagrams_to_send(now=t)
            for ranges, handler, args in log.acks:
                sound(ranges)
                sent_acks.append((handler, args))
                if pending is not None:
                    pn, _ = pending
                    if sx.truth(sx.Or(*[sx.And(a <= pn, pn < b) for a, b in ranges]) if ranges else False):
                        pending = None

        for j in range(nops):
            op = prefix[j] if j < len(prefix) else ["arrive", "timer", "send", "ack_of_ack"][sx.Choice("op%d" % j, 4)]
            if op == "arrive":
                pn = base + sx.Int("pn%d" % j, -3, 6) if False else sx.Int("pn%d" % j, max(0, base - 3), base + 6)
                forged = sx.Bool("forged%d" % j)
                eliciting = sx.Bool("eliciting%d" % j)
                if forged:
                    cm.CryptoErrorChoice.fail_next = True
                if sx.E.mode == "replay" and forged:
                    dg = bytearray(p.datagram(tls.Epoch.ONE_RTT, b"\x01\x00\x00\x00", pn=pn))
                    dg[-1] ^= 1
                    conn.receive_datagram(bytes(dg), p.addr(), now=now)
                else:
                    p.deliver(tls.Epoch.ONE_RTT, b"\x01\x00\x00\x00" if eliciting else b"\x00\x00\x00\x00", now=now, pn=pn)
                cm.CryptoErrorChoice.fail_next = False
                if not forged:
                    is_largest = all(sx.truth(pn > r) for r in R) and sx.truth(pn >= base)
                    R.append(pn)
                    if eliciting and is_largest:
                        pending = (pn, now + conn._ack_delay)
                now += 0.001
            elif op == "timer":
                t = conn.get_timer()
                if pending is not None:
                    sx.check(t is not None and t <= pending[1], "no timer within the advertised acknowledgement delay after an ack-eliciting packet with the highest number")
                if t is None or t > now + 1.0:
                    continue  # only the idle timer is armed: it is not due
                t = max(t, now)
                transmit(t, True)
                if pending is not None and sx.truth(t >= pending[1] - 1e-9):
                    sx.fail("the ack-eliciting packet with the highest number was not acknowledged when the timer fired")
                now = t + 0.001
            elif op == "send":
                transmit(now, False)
                now += 0.001
            else:
                if not sent_acks:
                    continue
                handler, args = sent_acks.pop(sx.Choice("which%d" % j, len(sent_acks)))
                handler(QuicDeliveryState.ACKED if sx.Bool("acked%d" % j) else QuicDeliveryState.LOST, *args)
            if pending is not None:
                # invariant: an ack-eliciting packet with the highest number that is still unacknowledged keeps a
                # timer armed no later than the advertised delay
                tt = conn.get_timer()
                sx.check(tt is not None and tt <= pending[1] + 1e-9, "an unacknowledged ack-eliciting packet with the highest number has no timer within the advertised delay")
        # whatever happened, the next timer/transmit calls work
        t = conn.get_timer()
        fire = t is not None and t <= now + 1.0
        transmit(max(t, now) if fire else now, fire)
        sx.reached()

    return prep, run


def cc_ob(role):
    """acknowledgements are not held back by an exhausted congestion window, whatever else is waiting"""
    name = "c05_busy_%s" % role

    def prep():
        c05._quiet()
        cm.prepare(name, c05.busy(role))

    def run():
        from aioquic import tls

        c05._quiet()
        p = cm.get(name, role) if sx.E.mode == "sym" else cm.Peer(*c05._replay_pair(role, "busy"))
        conn = p.conn
        space = conn._spaces[tls.Epoch.ONE_RTT]
        sx.register_keys(range(0x40))
        space.ack_queue = type(space.ack_queue)()
        space.ack_at = None
        conn._ack_delay = 0.025
        cc = conn._loss._cc
        slack = sx.Int("window_slack", 0, 120)
        cc.bytes_in_flight = cc.congestion_window - slack
        path = conn._network_paths[0]
        if sx.Bool("challenge_to_answer"):
            path.remote_challenges.append(bytes(8))
        if sx.Bool("data_waiting"):
            sid = 8 if role == "client" else 9
            conn.send_stream_data(sid, bytes(200), end_stream=False)
        if sx.Bool("ping_waiting"):
            conn.send_ping(1)
        if sx.Bool("retirement_waiting"):
            conn._retire_connection_ids.append(0)
        pn = space.expected_packet_number
        p.deliver(tls.Epoch.ONE_RTT, b"\x01\x00\x00\x00", now=1.0, pn=pn)
        t = conn.get_timer()
        sx.check(t is not None and t <= 1.0 + conn._ack_delay + 1e-9, "no timer within the advertised acknowledgement delay")
        with AckLog() as log:
            conn.handle_timer(now=t)
            conn.datagrams_to_send(now=t)
        ok = any(any(a <= pn < b for a, b in ranges) for ranges, h, args in log.acks)
        sx.check(ok, "the acknowledgement was held back although ACK frames are exempt from congestion control")

    return prep, run


def obligations(tier):
    T = tier == "thorough"
    Q = "aioquic.quic.connection.QuicConnection."
    obs = []
    OPS = ["arrive", "timer", "send", "ack_of_ack"]
    n = 5 if T else 4
    for role in ("client", "server"):
        for o1 in OPS:
            for o2 in OPS:
                nn = n if (T or (o1, o2) != ("arrive", "arrive")) else 3
                prep, run = ack_ob(role, nn, ("arrive", o1, o2))
                obs.append(Ob("C12.ack.%s.arrive-%s-%s" % (role, o1, o2), run, cm.conn_shims, [Q + "receive_datagram", Q + "_write_ack_frame", Q + "_on_ack_delivery", Q + "_write_application", Q + "get_timer", Q + "handle_timer", "aioquic.quic.packet.push_ack_frame"], bounds="1-RTT space of a connected endpoint, operations arrive, %s, %s then %d more out of: arrival of a packet with any number within [expected-3, expected+6] (ack-eliciting or not, authentic or forged), timer firing when asked, transmit, ACKED/LOST of any earlier ACK-bearing packet" % (o1, o2, nn - 3), prepare=prep, budget_s=2400 if T else 280, max_decisions=1500, stubs=["CryptoPair -> transparent"]))
    for role in ("client", "server"):
        prep, run = cc_ob(role)
        obs.append(Ob("C12.ack_vs_window.%s" % role, run, cm.conn_shims, [Q + "_write_application", Q + "_write_ack_frame", "aioquic.quic.packet_builder.QuicPacketBuilder.start_frame"], bounds="congestion window exhausted to within 0-120 bytes; any subset of {PATH_RESPONSE, stream data, PING, RETIRE_CONNECTION_ID} waiting; one ack-eliciting packet arrives and the timer fires when asked", prepare=prep, budget_s=280, max_decisions=900, stubs=["CryptoPair -> transparent"]))
    return obs
