"""C17 (TLS part) -- handshake message codecs of aioquic/tls.py."""
from __future__ import annotations

from .. import symx as sx
from ..runner import Ob

ASSUMPTIONS = ["TLS lists bounded to <= 2 entries and opaque fields to <= 4 bytes in the round-trip obligations (longer ones repeat the same code path)"]

UNKNOWN_EXT = 0xFF01


def _tls():
    import aioquic.tls as tls

    return tls


def shims():
    tls = _tls()
    return {tls: ["int", "len", "bytes", "range", "isinstance"]}


# ------------------------------------------------------------ reference encoder helpers (RFC 8446 s3.4 vectors)
def cat(*parts):
    out = parts[0]
    for p in parts[1:]:
        out = out + p
    return out


def u(n, v):
    """n-byte big-endian integer as bytes (mode agnostic)"""
    B = sx.BufferClass()
    b = B(capacity=8)
    {1: b.push_uint8, 2: b.push_uint16, 4: b.push_uint32}[n](v) if n != 3 else (b.push_uint8(v // 65536), b.push_uint16(v % 65536))
    return b.data


def vec(n, content):
    return cat(u(n, sx.length_of(content)), content)


def ext(t, content):
    return cat(u(2, t), vec(2, content))


EMPTY = b""


def _opaque(name, maxlen):
    return sx.Bytes(name, maxlen)


# ------------------------------------------------------------ round trips
def rt_server_hello():
    tls = _tls()
    B = sx.BufferClass()
    h = tls.ServerHello(random=sx.Bytes("random", 32, 32), legacy_session_id=_opaque("sid", 4), cipher_suite=sx.Int("cs", 0, 65535), compression_method=sx.Int("cm", 0, 255))
    exts = EMPTY
    if sx.Bool("has_sv"):
        h.supported_version = sx.Int("sv", 0, 65535)
        exts = cat(exts, ext(tls.ExtensionType.SUPPORTED_VERSIONS, u(2, h.supported_version)))
    if sx.Bool("has_ks"):
        h.key_share = (sx.Int("group", 0, 65535), _opaque("ks", 4))
        exts = cat(exts, ext(tls.ExtensionType.KEY_SHARE, cat(u(2, h.key_share[0]), vec(2, h.key_share[1]))))
    if sx.Bool("has_psk"):
        h.pre_shared_key = sx.Int("psk", 0, 65535)
        exts = cat(exts, ext(tls.ExtensionType.PRE_SHARED_KEY, u(2, h.pre_shared_key)))
    if sx.Bool("has_other"):
        h.other_extensions = [(UNKNOWN_EXT, _opaque("other", 3))]
        exts = cat(exts, ext(UNKNOWN_EXT, h.other_extensions[0][1]))
    buf = B(capacity=200)
    tls.push_server_hello(buf, h)
    body = cat(u(2, 0x0303), h.random, vec(1, h.legacy_session_id), u(2, h.cipher_suite), u(1, h.compression_method), vec(2, exts))
    sx.check_bytes_eq(buf.data, cat(u(1, 2), vec(3, body)), "ServerHello bytes differ from the RFC 8446 s4.1.3 layout")
    sx.check_same(tls.pull_server_hello(B(data=buf.data)), h, "ServerHello round trip")


def rt_client_hello():
    tls = _tls()
    B = sx.BufferClass()
    nk = sx.Choice("nks", 3)
    h = tls.ClientHello(
        random=sx.Bytes("random", 32, 32),
        legacy_session_id=sx.Bytes("sid", 2, 2),
        cipher_suites=[sx.Int("cs%d" % i, 0, 65535) for i in range(sx.Choice("ncs", 3))],
        legacy_compression_methods=[sx.Int("cm0", 0, 255)],
        key_share=[(sx.Int("g%d" % i, 0, 65535), sx.Bytes("ks%d" % i, 3, 3)) for i in range(nk)],
        supported_versions=[sx.Int("sv0", 0, 65535)],
        signature_algorithms=[sx.Int("sa%d" % i, 0, 65535) for i in range(sx.Choice("nsa", 3))],
        supported_groups=[sx.Int("sg0", 0, 65535)],
    )
    E = tls.ExtensionType
    ks = EMPTY
    for g, d in h.key_share:
        ks = cat(ks, u(2, g), vec(2, d))
    exts = cat(ext(E.KEY_SHARE, vec(2, ks)), ext(E.SUPPORTED_VERSIONS, vec(1, u(2, h.supported_versions[0]))))
    sa = EMPTY
    for a in h.signature_algorithms:
        sa = cat(sa, u(2, a))
    exts = cat(exts, ext(E.SIGNATURE_ALGORITHMS, vec(2, sa)), ext(E.SUPPORTED_GROUPS, vec(2, u(2, h.supported_groups[0]))))
    if sx.Bool("has_modes"):
        h.psk_key_exchange_modes = [sx.Int("mode", 0, 255)]
        exts = cat(exts, ext(E.PSK_KEY_EXCHANGE_MODES, vec(1, u(1, h.psk_key_exchange_modes[0]))))
    if sx.Bool("has_sni"):
        h.server_name = "ab.example"
        exts = cat(exts, ext(E.SERVER_NAME, vec(2, cat(u(1, 0), vec(2, b"ab.example")))))
    if sx.Bool("has_alpn"):
        h.alpn_protocols = ["h3", "hq-interop"]
        exts = cat(exts, ext(E.ALPN, vec(2, cat(vec(1, b"h3"), vec(1, b"hq-interop")))))
    if sx.Bool("has_other"):
        h.other_extensions = [(UNKNOWN_EXT, sx.Bytes("other", 3, 3))]
        exts = cat(exts, ext(UNKNOWN_EXT, h.other_extensions[0][1]))
    if sx.Bool("has_early"):
        h.early_data = True
        exts = cat(exts, ext(E.EARLY_DATA, EMPTY))
    if sx.Bool("has_psk"):
        h.pre_shared_key = tls.OfferedPsks(identities=[(sx.Bytes("ident", 3, 3), sx.Int("age", 0, (1 << 32) - 1))], binders=[sx.Bytes("binder", 3, 3)])
        ident, age = h.pre_shared_key.identities[0]
        exts = cat(exts, ext(E.PRE_SHARED_KEY, cat(vec(2, cat(vec(2, ident), u(4, age))), vec(2, vec(1, h.pre_shared_key.binders[0])))))
    buf = B(capacity=400)
    tls.push_client_hello(buf, h)
    cs = EMPTY
    for c in h.cipher_suites:
        cs = cat(cs, u(2, c))
    body = cat(u(2, 0x0303), h.random, vec(1, h.legacy_session_id), vec(2, cs), vec(1, u(1, h.legacy_compression_methods[0])), vec(2, exts))
    sx.check_bytes_eq(buf.data, cat(u(1, 1), vec(3, body)), "ClientHello bytes differ from the RFC 8446 s4.1.2 layout")
    sx.check_same(tls.pull_client_hello(B(data=buf.data)), h, "ClientHello round trip")


def rt_encrypted_extensions():
    tls = _tls()
    B = sx.BufferClass()
    e = tls.EncryptedExtensions()
    exts = EMPTY
    if sx.Bool("has_alpn"):
        e.alpn_protocol = "h3"
        exts = cat(exts, ext(tls.ExtensionType.ALPN, vec(2, vec(1, b"h3"))))
    if sx.Bool("has_early"):
        e.early_data = True
        exts = cat(exts, ext(tls.ExtensionType.EARLY_DATA, EMPTY))
    n = sx.Choice("nother", 3)
    e.other_extensions = [(UNKNOWN_EXT + i, _opaque("o%d" % i, 4)) for i in range(n)]
    for t, v in e.other_extensions:
        exts = cat(exts, ext(t, v))
    buf = B(capacity=200)
    tls.push_encrypted_extensions(buf, e)
    sx.check_bytes_eq(buf.data, cat(u(1, 8), vec(3, vec(2, exts))), "EncryptedExtensions bytes differ from the RFC layout")
    sx.check_same(tls.pull_encrypted_extensions(B(data=buf.data)), e, "EncryptedExtensions round trip")


def rt_certificate():
    tls = _tls()
    B = sx.BufferClass()
    n = sx.Choice("ncert", 3)
    c = tls.Certificate(request_context=_opaque("ctx", 3), certificates=[(_opaque("cert%d" % i, 4), _opaque("cext%d" % i, 2)) for i in range(n)])
    entries = EMPTY
    for d, x in c.certificates:
        entries = cat(entries, vec(3, d), vec(2, x))
    buf = B(capacity=200)
    tls.push_certificate(buf, c)
    sx.check_bytes_eq(buf.data, cat(u(1, 11), vec(3, cat(vec(1, c.request_context), vec(3, entries)))), "Certificate bytes differ from the RFC layout")
    sx.check_same(tls.pull_certificate(B(data=buf.data)), c, "Certificate round trip")


def rt_certificate_request():
    tls = _tls()
    B = sx.BufferClass()
    c = tls.CertificateRequest(request_context=_opaque("ctx", 3), signature_algorithms=[sx.Int("sa%d" % i, 0, 65535) for i in range(sx.Choice("nsa", 3))])
    if sx.Bool("has_other"):
        c.other_extensions = [(UNKNOWN_EXT, _opaque("other", 3))]
    buf = B(capacity=200)
    tls.push_certificate_request(buf, c)
    sx.check_same(tls.pull_certificate_request(B(data=buf.data)), c, "CertificateRequest round trip")


def rt_certificate_verify():
    tls = _tls()
    B = sx.BufferClass()
    v = tls.CertificateVerify(algorithm=sx.Int("alg", 0, 65535), signature=_opaque("sig", 6))
    buf = B(capacity=100)
    tls.push_certificate_verify(buf, v)
    sx.check_bytes_eq(buf.data, cat(u(1, 15), vec(3, cat(u(2, v.algorithm), vec(2, v.signature)))), "CertificateVerify bytes differ from the RFC layout")
    sx.check_same(tls.pull_certificate_verify(B(data=buf.data)), v, "CertificateVerify round trip")


def rt_finished():
    tls = _tls()
    B = sx.BufferClass()
    f = tls.Finished(verify_data=_opaque("vd", 48))
    buf = B(capacity=100)
    tls.push_finished(buf, f)
    sx.check_bytes_eq(buf.data, cat(u(1, 20), vec(3, f.verify_data)), "Finished bytes differ from the RFC layout")
    sx.check_same(tls.pull_finished(B(data=buf.data)), f, "Finished round trip")


def rt_new_session_ticket():
    tls = _tls()
    B = sx.BufferClass()
    t = tls.NewSessionTicket(ticket_lifetime=sx.Int("life", 0, (1 << 32) - 1), ticket_age_add=sx.Int("add", 0, (1 << 32) - 1), ticket_nonce=_opaque("nonce", 3), ticket=_opaque("ticket", 4))
    exts = EMPTY
    if sx.Bool("has_med"):
        t.max_early_data_size = sx.Int("med", 0, (1 << 32) - 1)
        exts = cat(exts, ext(tls.ExtensionType.EARLY_DATA, u(4, t.max_early_data_size)))
    if sx.Bool("has_other"):
        t.other_extensions = [(UNKNOWN_EXT, _opaque("other", 3))]
        exts = cat(exts, ext(UNKNOWN_EXT, t.other_extensions[0][1]))
    buf = B(capacity=200)
    tls.push_new_session_ticket(buf, t)
    sx.check_bytes_eq(buf.data, cat(u(1, 4), vec(3, cat(u(4, t.ticket_lifetime), u(4, t.ticket_age_add), vec(1, t.ticket_nonce), vec(2, t.ticket), vec(2, exts)))), "NewSessionTicket bytes differ from the RFC layout")
    sx.check_same(tls.pull_new_session_ticket(B(data=buf.data)), t, "NewSessionTicket round trip")


# ------------------------------------------------------------ declared extension length must be honoured
def _u16(b, off):
    return b[off] * 256 + b[off + 1]


def _need(b, n):
    return sx.truth(sx.length_of(b) >= n)


def T_fixed(n):
    return lambda b: n


def T_vec(hdr):
    """extension body = one vector with an hdr-byte length prefix"""

    def f(b):
        if not _need(b, hdr):
            return None
        return hdr + (b[0] if hdr == 1 else _u16(b, 0))

    return f


def T_sh_keyshare(b):
    if not _need(b, 4):
        return None
    return 4 + _u16(b, 2)


def T_psk(b):
    if not _need(b, 2):
        return None
    a = 2 + _u16(b, 0)
    if not sx.truth(sx.length_of(b) >= a + 2):
        return None
    return a + 2 + (b[sx.concretize(a)] * 256 + b[sx.concretize(a) + 1])


def extlen(msg, ext_type, Tfn, maxbody):
    """message `msg` carrying exactly one known extension whose *declared* length L is the length of
    an arbitrary body, followed by a sentinel unknown extension: decoding may only succeed when the
    known extension's own encoding fills exactly the L declared bytes"""

    def run():
        tls = _tls()
        B = sx.BufferClass()
        body = sx.Bytes("body", maxbody)
        L = sx.length_of(body)
        exts = cat(u(2, ext_type), u(2, L), body, ext(UNKNOWN_EXT, b"\x5a"))
        if msg == "server_hello":
            data = cat(u(1, 2), vec(3, cat(u(2, 0x0303), bytes(32), vec(1, EMPTY), u(2, 0x1301), u(1, 0), vec(2, exts))))
            pull = tls.pull_server_hello
        elif msg == "client_hello":
            data = cat(u(1, 1), vec(3, cat(u(2, 0x0303), bytes(32), vec(1, EMPTY), vec(2, u(2, 0x1301)), vec(1, u(1, 0)), vec(2, exts))))
            pull = tls.pull_client_hello
        elif msg == "encrypted_extensions":
            data = cat(u(1, 8), vec(3, vec(2, exts)))
            pull = tls.pull_encrypted_extensions
        elif msg == "new_session_ticket":
            data = cat(u(1, 4), vec(3, cat(u(4, 1), u(4, 2), vec(1, EMPTY), vec(2, b"t"), vec(2, exts))))
            pull = tls.pull_new_session_ticket
        else:
            data = cat(u(1, 13), vec(3, cat(vec(1, EMPTY), vec(2, exts))))
            pull = tls.pull_certificate_request
        try:
            v = pull(B(data=data))
        except (tls.Alert, ValueError, IndexError):
            sx.reached()  # IndexError: EncryptedExtensions with an empty ALPN list (a C05 matter, not a codec one)
            return
        T = Tfn(body)
        if T is None:
            sx.fail("extension accepted although its body is shorter than its own fixed part (read past the declared extension length)")
        sx.check(T == L, "known extension accepted although its encoding does not fill the declared extension length")
        others = v.other_extensions
        sx.check(len(others) == 1 and sx.truth(others[0][0] == UNKNOWN_EXT), "following extension not decoded from the offset the declared length gives")

    return run


def obligations(tier):
    T = tier == "thorough"
    tls = _tls()
    E = tls.ExtensionType
    P = "aioquic.tls."
    common = [P + "pull_block", P + "push_block", P + "pull_list", P + "push_list", P + "pull_opaque", P + "push_opaque", P + "push_extension"]
    obs = []
    for name, fn, enc in [("server_hello", rt_server_hello, ["pull_server_hello", "push_server_hello", "pull_key_share", "push_key_share"]), ("client_hello", rt_client_hello, ["pull_client_hello", "push_client_hello", "pull_offered_psks", "push_offered_psks", "pull_server_name", "push_server_name", "pull_alpn_protocol", "push_alpn_protocol"]), ("encrypted_extensions", rt_encrypted_extensions, ["pull_encrypted_extensions", "push_encrypted_extensions"]), ("certificate", rt_certificate, ["pull_certificate", "push_certificate"]), ("certificate_request", rt_certificate_request, ["pull_certificate_request", "push_certificate_request"]), ("certificate_verify", rt_certificate_verify, ["pull_certificate_verify", "push_certificate_verify"]), ("finished", rt_finished, ["pull_finished", "push_finished"]), ("new_session_ticket", rt_new_session_ticket, ["pull_new_session_ticket", "push_new_session_ticket"])]:
        obs.append(Ob("C17.tls.rt.%s" % name, fn, shims, common + [P + e for e in enc], bounds="every optional extension present/absent, lists <= 2 entries, opaque fields of symbolic length <= 4 bytes (Finished <= 48; ClientHello: fixed lengths 2-3 with symbolic content), integer fields over their full width", budget_s=900 if T else 280))
    mb = 12 if T else 8
    cases = [("server_hello", E.SUPPORTED_VERSIONS, T_fixed(2)), ("server_hello", E.PRE_SHARED_KEY, T_fixed(2)), ("server_hello", E.KEY_SHARE, T_sh_keyshare), ("client_hello", E.KEY_SHARE, T_vec(2)), ("client_hello", E.SUPPORTED_VERSIONS, T_vec(1)), ("client_hello", E.SIGNATURE_ALGORITHMS, T_vec(2)), ("client_hello", E.SUPPORTED_GROUPS, T_vec(2)), ("client_hello", E.PSK_KEY_EXCHANGE_MODES, T_vec(1)), ("client_hello", E.SERVER_NAME, T_vec(2)), ("client_hello", E.ALPN, T_vec(2)), ("client_hello", E.EARLY_DATA, T_fixed(0)), ("encrypted_extensions", E.ALPN, T_vec(2)), ("encrypted_extensions", E.EARLY_DATA, T_fixed(0)), ("new_session_ticket", E.EARLY_DATA, T_fixed(4)), ("certificate_request", E.SIGNATURE_ALGORITHMS, T_vec(2))]
    for msg, et, Tfn in cases:
        if et == E.ALPN:
            mb = 8 if T else 5  # ASCII decoding forks per byte
        obs.append(Ob("C17.tls.extlen.%s.%s" % (msg, et.name.lower()), extlen(msg, int(et), Tfn, mb), shims, common + [P + "pull_" + msg], bounds="declared extension length = length of an arbitrary body of <= %d bytes, followed by one sentinel extension" % mb, budget_s=900 if T else 280, max_decisions=900))
    return obs
