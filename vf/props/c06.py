"""C06 -- the sender never exceeds the peer's flow-control and stream-count limits."""
from __future__ import annotations

from .. import connmodel as cm
from .. import symx as sx
from ..runner import Ob
from . import c05

ASSUMPTIONS = c05.ASSUMPTIONS[:1] + ["what goes on the wire is observed at QuicPacketBuilder.start_frame (frame type, delivery handler and its stream/offset arguments), i.e. exactly what the packet will carry"]
V62 = (1 << 62) - 1


class FrameLog:
    """records every frame the connection starts while the context is active"""

    def __init__(self):
        self.frames = []

    def __enter__(self):
        import aioquic.quic.packet_builder as pb

        self.pb = pb
        self.orig = pb.QuicPacketBuilder.start_frame
        log = self.frames
        orig = self.orig

        def start_frame(builder, frame_type, capacity=1, handler=None, handler_args=[]):
            buf = orig(builder, frame_type, capacity, handler, handler_args)
            log.append((frame_type, handler, tuple(handler_args)))
            return buf

        pb.QuicPacketBuilder.start_frame = start_frame
        return self

    def __exit__(self, *a):
        self.pb.QuicPacketBuilder.start_frame = self.orig
        return False


def send_ob(role, nops, prefix=()):
    name = "c06_fresh_%s" % role

    def prep():
        c05._quiet()
        cm.prepare(name, cm.connected_template(role))

    def run():
        from aioquic import tls
        from aioquic.quic.packet_builder import QuicDeliveryState

        c05._quiet()
        p = cm.get(name, role)
        conn = p.conn
        base = 0 if role == "client" else 1
        sx.register_keys(range(0x40))
        sx.register_keys([base + 4 * k for k in range(4)] + [base + 2 + 4 * k for k in range(3)])
        # the peer's limits: arbitrary, small stream counts
        M = sx.Int("max_data", 0, V62)
        S = sx.Int("max_stream_data", 0, V62)
        N = sx.Choice("max_streams_bidi", 3)
        conn._remote_max_data = M
        conn._remote_max_data_used = 0
        conn._remote_max_stream_data_bidi_remote = S
        conn._remote_max_streams_bidi = N
        limits = {"data": M, "streams": N, "stream": {}}
        Z = sx.Fn("payload")
        sent_hi = {}  # stream id -> highest end seen on the wire
        written = {}

        def observe(frames):
            for ft, handler, args in frames:
                if 0x08 <= ft <= 0x0F:
                    sid = handler.__self__._stream_id
                    off, end, fin = args
                    lim = limits["stream"].get(sid, S)
                    sx.check(end <= lim, "STREAM frame beyond the peer's per-stream limit")
                    sx.check(sid // 4 < limits["streams"], "STREAM frame on a stream beyond the peer's stream-count limit")
                    prev = sent_hi.get(sid, 0)
                    sent_hi[sid] = sx.ite(end > prev, end, prev)
                    total = 0
                    for v in sent_hi.values():
                        total = total + v
                    sx.check(total <= limits["data"], "sum of highest offsets beyond the peer's connection limit")
                elif ft in (0x04, 0x05):
                    owner = handler.__self__
                    sid = owner._stream_id
                    if (sid % 2) == base % 2:  # locally initiated
                        sx.check(sid // 4 < limits["streams"], "%s frame for a stream the peer's stream-count limit does not allow yet" % ("RESET_STREAM" if ft == 4 else "STOP_SENDING"))

        t = 1.0
        for j in range(nops):
            op = prefix[j] if j < len(prefix) else ["write", "reset", "flush", "raise_limits", "lose"][sx.Choice("op%d" % j, 5)]
            if op == "write":
                sid = base + 4 * sx.Choice("sid%d" % j, 2)
                st = conn._streams.get(sid)
                if st is not None and (st.sender._buffer_fin is not None or st.sender._reset_error_code is not None):
                    continue
                ln = sx.Int("len%d" % j, 0, 3000)
                fin = sx.Bool("fin%d" % j)
                conn.send_stream_data(sid, sx.BytesOf(Z, 0, ln), end_stream=fin)
                written[sid] = written.get(sid, 0) + ln
            elif op == "reset":
                sid = base + 4 * sx.Choice("rsid%d" % j, 2)
                conn.reset_stream(sid, 7)
            elif op == "raise_limits":
                M2 = sx.Int("max_data%d" % j, 0, V62)
                N2 = N + sx.Choice("more_streams%d" % j, 3)
                B = sx.BufferClass()
                buf = B(capacity=64)
                buf.push_uint8(0x10)
                c05.push_v(buf, M2)
                buf.push_uint8(0x12)
                c05.push_v(buf, N2)
                sidl = base + 4 * sx.Choice("lsid%d" % j, 2)
                S2 = sx.Int("max_stream_data%d" % j, 0, V62)
                may = conn._streams.get(sidl) is not None
                if may:
                    buf.push_uint8(0x11)
                    c05.push_v(buf, sidl)
                    c05.push_v(buf, S2)
                p.deliver(tls.Epoch.ONE_RTT, buf.data, now=t)
                limits["data"] = sx.ite(M2 > limits["data"], M2, limits["data"])
                limits["streams"] = max(limits["streams"], N2)
                if may:
                    cur = limits["stream"].get(sidl, S)
                    limits["stream"][sidl] = sx.ite(S2 > cur, S2, cur)
                sx.check(conn._close_event is None, "limit updates closed the connection")
            elif op == "lose":
                # everything in flight is declared lost: retransmission must not consume new credit
                used_before = conn._remote_max_data_used
                for space in conn._loss.spaces:
                    for pn, pkt in list(space.sent_packets.items()):
                        for handler, args in pkt.delivery_handlers:
                            handler(QuicDeliveryState.LOST, *args)
                    space.sent_packets.clear()
                conn._loss._cc.bytes_in_flight = 0
                sx.check(conn._remote_max_data_used == used_before, "declaring loss changed the consumed connection credit")
            else:
                with FrameLog() as log:
                    conn.datagrams_to_send(now=t)
                observe(log.frames)
                t += 0.05
        with FrameLog() as log:
            conn.datagrams_to_send(now=t)
        observe(log.frames)
        total = 0
        for sid, st in conn._streams.items():
            total = total + st.sender.highest_offset
        sx.check(total == conn._remote_max_data_used, "consumed connection credit differs from the sum of highest stream offsets")
        sx.check(conn._remote_max_data_used <= conn._remote_max_data, "consumed connection credit beyond the peer's limit")

    return prep, run


def obligations(tier):
    T = tier == "thorough"
    Q = "aioquic.quic.connection.QuicConnection."
    obs = []
    n = 4 if T else 3
    for role in ("client", "server"):
        for op0 in ("write", "reset", "raise_limits"):
            for op1 in ("write", "reset", "flush", "raise_limits", "lose"):
                heavy = (op0, op1) in (("write", "write"), ("write", "flush"), ("write", "raise_limits"), ("write", "lose"), ("raise_limits", "write"), ("raise_limits", "raise_limits"))
                nn = n if (T or not heavy) else 2
                prep, run = send_ob(role, nn, (op0, op1))
                obs.append(Ob("C06.send.%s.%s-%s" % (role, op0, op1), run, cm.conn_shims, [Q + "send_stream_data", Q + "reset_stream", Q + "_get_or_create_stream_for_send", Q + "_write_application", Q + "_write_stream_frame", Q + "_write_reset_stream_frame", Q + "_unblock_streams", Q + "_handle_max_data_frame", Q + "_handle_max_stream_data_frame", Q + "_handle_max_streams_bidi_frame", "aioquic.quic.stream.QuicStreamSender.get_frame"], bounds="arbitrary peer limits (connection data, stream data; stream count 0-2); operations %s, %s then every sequence of %d more operations (write 0-3000 bytes/FIN on one of 2 streams, reset, transmit, limit updates with arbitrary values, loss of everything in flight), followed by a transmit" % (op0, op1, nn - 2), prepare=prep, budget_s=2400 if T else 280, max_decisions=1500, stubs=["CryptoPair -> transparent"]))
    return obs
