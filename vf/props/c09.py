"""C09 -- a live connection always has a timer, and closing always terminates."""
from __future__ import annotations

from .. import connmodel as cm
from .. import symx as sx
from ..runner import Ob
from . import c05

ASSUMPTIONS = c05.ASSUMPTIONS[:1] + ["step level: timers and closing are checked from concretely built states with symbolic timer sources, RTT state and instants; arbitrarily long histories are carried by the invariant 'live state => the idle/closing deadline is set'", "floats as reals"]


def _sym_rtt(conn):
    loss = conn._loss
    if sx.Bool("rtt_initialized"):
        loss._rtt_initialized = True
        loss._rtt_smoothed = sx.Real("srtt", 0, 5)
        loss._rtt_variance = sx.Real("rttvar", 0, 5)
    loss.max_ack_delay = sx.Real("max_ack_delay", 0, 1)
    # probes already fired unanswered (exponential backoff of the PTO timer, RFC 9002 s6.2.1)
    loss._pto_count = sx.concretize(sx.Int("pto_count", 0, 3))


def _pto_spec(loss):
    """RFC 9002 s6.2.1 written independently of recovery.get_probe_timeout(): the probe timeout WITHOUT
    backoff -- the unit of the closing period (RFC 9000 s10.2) and of the idle-timeout floor (s10.1)"""
    if not loss._rtt_initialized:
        return 2 * loss._rtt_initial
    v4 = 4 * loss._rtt_variance
    return loss._rtt_smoothed + sx.ite(v4 > 0.001, v4, 0.001) + loss.max_ack_delay


def timer_ob(role):
    name = "c05_busy_%s" % role

    def prep():
        c05._quiet()
        cm.prepare(name, c05.busy(role))

    def run():
        from aioquic import tls

        c05._quiet()
        conn = (cm.get(name, role) if sx.E.mode == "sym" else cm.Peer(*c05._replay_pair(role, "busy"))).conn
        sx.check(conn._close_at is not None, "a connected endpoint has no idle deadline")
        _sym_rtt(conn)
        conn._close_at = sx.Real("close_at", 0, 1000)
        cands = [conn._close_at]
        for i, sp in enumerate(conn._loss.spaces):
            if sx.Bool("ack_armed%d" % i):
                sp.ack_at = sx.Real("ack_at%d" % i, 0, 1000)
                cands.append(sp.ack_at)
            else:
                sp.ack_at = None
            if sx.Bool("loss_armed%d" % i):
                sp.loss_time = sx.Real("loss_time%d" % i, 0, 1000)
        if sx.Bool("pacing"):
            conn._pacing_at = sx.Real("pacing_at", 0, 1000)
            cands.append(conn._pacing_at)
        t = conn.get_timer()
        sx.check(t is not None, "a live connection names no timer")
        lt = conn._loss.get_loss_detection_time()
        if lt is not None:
            cands.append(lt)
            if all(sp.loss_time is None for sp in conn._loss.spaces):
                # a probe timer: last ack-eliciting transmission + PTO backed off once per unanswered probe
                exp_pto = conn._loss._time_of_last_sent_ack_eliciting_packet + _pto_spec(conn._loss) * (2 ** conn._loss._pto_count)
                sx.check(lt == exp_pto, "the probe deadline is not 'last ack-eliciting send + PTO * 2^pto_count'")
        m = cands[0]
        for c in cands[1:]:
            m = sx.ite(c < m, c, m)
        sx.check(t == m, "get_timer() is not the earliest of the deadlines that apply")

    return prep, run


def close_ob(role, how):
    name = "c05_busy_%s" % role

    def prep():
        c05._quiet()
        cm.prepare(name, c05.busy(role))

    def run():
        from aioquic import tls
        from aioquic.quic.connection import QuicConnectionState
        from aioquic.quic.events import ConnectionTerminated

        c05._quiet()
        p = cm.get(name, role) if sx.E.mode == "sym" else cm.Peer(*c05._replay_pair(role, "busy"))
        conn = p.conn
        sx.register_keys(range(0x40))
        _sym_rtt(conn)
        now = sx.Real("now", 1, 100)
        cm.drain_events(conn)
        if how == "local":
            conn.close(error_code=sx.Int("code", 0, 1000), reason_phrase="bye")
            out = conn.datagrams_to_send(now=now)
            sx.check(len(out) >= 1, "no closing packet")
            exp_state = QuicConnectionState.CLOSING
        elif how == "fatal":
            p.deliver(tls.Epoch.ONE_RTT, b"\x21\x00\x00\x00", now=now)  # unknown frame type
            out = conn.datagrams_to_send(now=now)
            exp_state = QuicConnectionState.CLOSING
        else:
            B = sx.BufferClass()
            buf = B(capacity=64)
            app = sx.Bool("application_close")
            buf.push_uint8(0x1D if app else 0x1C)
            c05.push_v(buf, sx.Int("code", 0, (1 << 62) - 1))
            if not app:
                c05.push_v(buf, sx.Int("frame_type", 0, (1 << 62) - 1))
            buf.push_uint_var(2)
            buf.push_bytes(b"ok")
            p.deliver(tls.Epoch.ONE_RTT, buf.data, now=now)
            exp_state = QuicConnectionState.DRAINING
        sx.check(conn._state == exp_state, "closing did not enter the %s state" % exp_state.name)
        pto = _pto_spec(conn._loss)
        sx.check(conn._close_at == now + 3 * pto, "the closing period is not three probe timeouts (RFC 9002 s6.2.1 PTO, without backoff)")
        sx.check(conn.get_timer() == conn._close_at, "timer is not the end of the closing period")
        early = [e for e in cm.drain_events(conn) if isinstance(e, ConnectionTerminated)]
        sx.check(not early, "termination reported before the closing period ended")
        # a second close request / more packets change nothing
        conn.close(error_code=1)
        more = conn.datagrams_to_send(now=now + pto)
        sx.check(more == [], "more than the closing packets were sent")
        p.deliver(tls.Epoch.ONE_RTT, b"\x01\x00\x00\x00", now=now + pto)
        sx.check(not cm.drain_events(conn), "events delivered while closing")
        # the timer fires at or after the deadline
        t = sx.Real("fire", 0, 10000)
        sx.assume(t >= conn._close_at)
        conn.handle_timer(now=t)
        evs = cm.drain_events(conn)
        terms = [e for e in evs if isinstance(e, ConnectionTerminated)]
        sx.check(len(terms) == 1 and len(evs) == 1, "termination not reported exactly once")
        sx.check(conn._state == QuicConnectionState.TERMINATED and conn.get_timer() is None, "no terminal state / timer still armed after termination")
        # afterwards: quiet
        p.deliver(tls.Epoch.ONE_RTT, b"\x01\x00\x00\x00", now=t + 1)
        conn.receive_datagram(sx.Bytes("junk", 12, 12) if sx.E.mode == "sym" else bytes(sx.Bytes("junk", 12, 12)), p.addr(), now=t + 1)
        sx.check(conn.datagrams_to_send(now=t + 1) == [], "datagrams after termination")
        sx.check(conn.get_timer() is None, "a datagram after termination armed a timer again")
        sx.check(not cm.drain_events(conn), "events after the termination event")

    return prep, run


def idle_ob(role):
    """the idle deadline is re-armed by every processed packet, with the negotiated value, and not by dropped ones"""
    name = "c05_busy_%s" % role

    def prep():
        c05._quiet()
        cm.prepare(name, c05.busy(role))

    def run():
        from aioquic import tls
        from aioquic.quic.connection import QuicConnectionState
        from aioquic.quic.events import ConnectionTerminated

        c05._quiet()
        p = cm.get(name, role) if sx.E.mode == "sym" else cm.Peer(*c05._replay_pair(role, "busy"))
        conn = p.conn
        sx.register_keys(range(0x40))
        _sym_rtt(conn)
        local = conn._configuration.idle_timeout
        remote_before = sx.Real("remote_idle_before", 0, 600) if sx.Bool("remote_known") else None
        conn._remote_max_idle_timeout = remote_before
        remote_after = remote_before
        learn = sx.Bool("peer_parameters_arrive_in_this_packet")
        if learn:
            remote_after = sx.Real("remote_idle_after", 0, 600)

            def handle_message(data, out, conn=conn, v=remote_after):
                conn._remote_max_idle_timeout = v  # what _parse_transport_parameters does with max_idle_timeout

            conn.tls.handle_message = handle_message
        now = sx.Real("now", 1, 100)
        old_deadline = conn._close_at
        forged = sx.Bool("forged")
        if forged:
            cm.CryptoErrorChoice.fail_next = True
        off = conn._crypto_streams[tls.Epoch.ONE_RTT].receiver.starting_offset()
        payload = bytes([0x06, off, 0x02]) + b"hi" if learn else b"\x01\x00\x00\x00"
        if sx.E.mode == "replay" and forged:
            dg = bytearray(p.datagram(tls.Epoch.ONE_RTT, payload))
            dg[-1] ^= 1
            conn.receive_datagram(bytes(dg), p.addr(), now=now)
        else:
            p.deliver(tls.Epoch.ONE_RTT, payload, now=now)
        cm.CryptoErrorChoice.fail_next = False
        if forged:
            sx.check(conn._close_at == old_deadline, "a packet that failed authentication moved the idle deadline")
            return
        sx.check(conn._close_event is None, "harness: packet refused")
        pto3 = 3 * _pto_spec(conn._loss)
        neg = local if remote_after is None else sx.ite(remote_after < local, remote_after, local)
        exp = sx.ite(pto3 > neg, pto3, neg)
        sx.check(conn._close_at == now + exp, "the idle deadline is not 'now + max(min(local, peer), 3 PTO)' with the values negotiated so far")
        # and idling until then terminates the connection exactly once
        conn.datagrams_to_send(now=now)
        cm.drain_events(conn)
        conn.handle_timer(now=conn._close_at)
        evs = [e for e in cm.drain_events(conn) if isinstance(e, ConnectionTerminated)]
        sx.check(len(evs) == 1 and conn._state == QuicConnectionState.TERMINATED, "idle timeout did not terminate the connection exactly once")

    return prep, run


def obligations(tier):
    T = tier == "thorough"
    Q = "aioquic.quic.connection.QuicConnection."
    R = "aioquic.quic.recovery.QuicPacketRecovery."
    obs = []
    for role in ("client", "server"):
        prep, run = timer_ob(role)
        obs.append(Ob("C09.timer.%s" % role, run, cm.conn_shims, [Q + "get_timer", R + "get_loss_detection_time", R + "get_probe_timeout"], bounds="connected endpoint; closing/idle deadline, per-space ACK and loss times, pacing time and RTT state all symbolic (each source armed or not); 0..3 unanswered probes (PTO backoff); the probe deadline is compared with RFC 9002 s6.2.1 written independently of get_probe_timeout()", prepare=prep, budget_s=280, max_decisions=1500))
        for how in ("local", "fatal", "peer"):
            prep, run = close_ob(role, how)
            obs.append(Ob("C09.close.%s.%s" % (role, how), run, cm.conn_shims, [Q + "close", Q + "datagrams_to_send", Q + "_close_begin", Q + "_close_end", Q + "handle_timer", Q + "receive_datagram", Q + "_handle_connection_close_frame", R + "get_probe_timeout"], bounds="close initiated by %s at a symbolic instant with symbolic RTT state; second close request, a further packet, the timer at any instant at or after the deadline, then a packet and arbitrary bytes after termination" % {"local": "the application", "fatal": "a protocol error", "peer": "the peer (transport or application CONNECTION_CLOSE, any codes)"}[how], prepare=prep, budget_s=280, max_decisions=1500))
        prep, run = idle_ob(role)
        obs.append(Ob("C09.idle.%s" % role, run, cm.conn_shims, [Q + "receive_datagram", Q + "_idle_timeout", Q + "handle_timer"], bounds="one authentic or forged packet at a symbolic instant; the peer's idle timeout unknown / known / learnt while this very packet is processed (any values); symbolic RTT state", prepare=prep, budget_s=280, max_decisions=1500))
    return obs
