"""symx -- re-execution symbolic executor for (unmodified) Python code over z3.

The real functions of aioquic run natively in CPython; harnesses feed them proxy
values (SymInt, SymBool, SymReal, SymBytes, SymByteArray, SymRange) that build z3
terms.  Every truth test on a proxy is a solver-checked decision; a DFS over the
decision tree re-runs the harness once per feasible path.

Two modes share the same harness code:
  * mode == "sym":     inputs are proxies, checks are solver queries
  * mode == "replay":  inputs are plain Python values taken from a recorded
                       counterexample, no shim is installed, checks are ordinary
                       boolean tests against the real code.

See DESIGN.md section 3.
"""
from __future__ import annotations

import builtins
import sys
import time
import traceback
from fractions import Fraction

import z3

_len = builtins.len
_range = builtins.range
_isinstance = builtins.isinstance
_min = builtins.min
_max = builtins.max
_int = builtins.int
_bytes = builtins.bytes
_bytearray = builtins.bytearray
_sorted = builtins.sorted
_sum = builtins.sum
_abs = builtins.abs


# --------------------------------------------------------------------------
# control-flow exceptions (BaseException: must not be swallowed by the code
# under test, which only ever catches Exception subclasses)
# --------------------------------------------------------------------------
class Infeasible(BaseException):
    """current path contradicts an assumption"""


class Inconclusive(BaseException):
    """solver unknown / bound exceeded / unsupported construct on this path"""

    def __init__(self, reason):
        BaseException.__init__(self, reason)
        self.reason = reason


class Violation(BaseException):
    def __init__(self, msg, inputs=None, site=None):
        BaseException.__init__(self, msg)
        self.msg = msg
        self.inputs = inputs
        self.site = site


class Unreplayable(BaseException):
    """a counterexample whose concrete form is too large to build"""


class Unsupported(Exception):
    """proxy operation not modelled (turned into Inconclusive by the explorer)"""


# --------------------------------------------------------------------------
# engine
# --------------------------------------------------------------------------
class Engine:
    def __init__(self):
        self.mode = "sym"
        self.reset_all()

    def reset_all(self, seed=0, max_decisions=600, solver_timeout_ms=20000):
        self.decisions = []  # [feasible option indices, cursor, payload]
        self.pos = 0
        self.solver = z3.Solver()
        self.solver.set("timeout", solver_timeout_ms)
        self.solver.set("random_seed", seed)
        self.paths = 0
        self.queries = 0
        self.solver_time = 0.0
        self.max_decisions = max_decisions
        self.inputs = {}  # name -> ("int"|"bool"|"bytes"|"fn"|"real", payload)
        self.size_like = []  # z3 Int terms that denote lengths/offsets (kept small in counterexamples)
        self.replay_values = None
        self.checks_on_path = 0
        self.fresh = 0
        self.format_sites = 0
        self.trace = []  # human readable decisions of current path
        self.decomp = {}
        self.known = {}
        self.key_syms = []
        self.hash_memo = {}
        self.fp_memo = {}
        self.fresh_mode = False
        self._fresh_model = None
        self.divs = {}
        self.divq = {}
        self.approx = False
        self.key_consts = []
        self.key_consts_set = set()

    # -- per-run ----------------------------------------------------------
    def start_run(self):
        self.pos = 0
        self.solver.reset()
        self.inputs = {}
        self.size_like = []
        self.checks_on_path = 0
        self.fresh = 0
        self.trace = []
        self.decomp = {}
        self.known = {}
        self.key_syms = []
        self.hash_memo = {}
        self.fp_memo = {}
        self.fresh_mode = False
        self._fresh_model = None
        self.divs = {}
        self.divq = {}
        self.approx = False

    _COMM = None

    def fp(self, term):
        """structural fingerprint of a term that ignores the argument order of commutative operators
        (z3.simplify orders them by AST id, which differs between re-executions of the same path)"""
        if Engine._COMM is None:
            Engine._COMM = {z3.Z3_OP_AND, z3.Z3_OP_OR, z3.Z3_OP_ADD, z3.Z3_OP_MUL, z3.Z3_OP_EQ, z3.Z3_OP_DISTINCT, z3.Z3_OP_IFF}
        memo = self.fp_memo
        stack = [(term, None)]
        while stack:
            t, kids = stack.pop()
            i = t.get_id()
            if i in memo:
                continue
            if kids is None:
                if not z3.is_app(t):
                    memo[i] = (t, hash(t.sexpr()))
                    continue
                kids = t.children()
                if not kids:
                    memo[i] = (t, hash(t.sexpr()))
                    continue
                stack.append((t, kids))
                for c in kids:
                    if c.get_id() not in memo:
                        stack.append((c, None))
                continue
            hs = [memo[c.get_id()][1] for c in kids]
            d = t.decl()
            k = d.kind()
            if k in Engine._COMM:
                hs.sort()
            memo[i] = (t, hash((k, d.name() if k == z3.Z3_OP_UNINTERPRETED else "", tuple(hs))))
        return memo[term.get_id()][1]

    def last_model(self):
        return self._fresh_model if self._fresh_model is not None else self.solver.model()

    def _check(self, *assumptions):
        self.queries += 1
        t = time.perf_counter()
        r = z3.unknown if self.fresh_mode else self.solver.check(*assumptions)
        if r == z3.unknown:
            # the incremental core gives up on some queries that a fresh solver (full preprocessing)
            # decides at once; stay with fresh solvers for the rest of this path
            self.fresh_mode = True
            s2 = z3.Solver()
            s2.set("timeout", 60000)
            s2.add(*self.solver.assertions())
            if assumptions:
                s2.add(*assumptions)
            r = s2.check()
            if r == z3.sat:
                self._fresh_model = s2.model()
        else:
            self._fresh_model = None
        self.solver_time += time.perf_counter() - t
        return r

    def choose(self, options, payload=None, fp=None):
        """options: list of z3 constraints (need not be exclusive).  Returns the
        index explored on this run; every feasible one is explored on some run."""
        if self.pos < _len(self.decisions):
            d = self.decisions[self.pos]
            i = d[0][d[1]]
            # the re-execution must reach the same decision: a differing condition means the code
            # under test (or the harness) is not deterministic, and the recorded feasibility is void
            if _len(d) > 3 and (i >= _len(options) or (fp if fp is not None else [self.fp(o) for o in options])[i] != d[3][i]):
                raise Inconclusive("non-deterministic re-execution: decision %d differs from the recorded one" % self.pos)
        else:
            if self.pos >= self.max_decisions:
                raise Inconclusive("unwinding bound: more than %d decisions on a path" % self.max_decisions)
            feas = []
            for i, c in enumerate(options):
                r = self._check(c)
                if r == z3.unknown:
                    raise Inconclusive("solver unknown on branch condition")
                if r == z3.sat:
                    feas.append(i)
            if not feas:
                raise Infeasible()
            d = [feas, 0, payload, fp if fp is not None else [self.fp(o) for o in options]]
            self.decisions.append(d)
        i = d[0][d[1]]
        self.solver.add(options[i])
        self.pos += 1
        return i

    def choose_lazy(self, n, make):
        """like choose() but constraint i is only built when needed (make(i) -> z3 Bool)"""
        if self.pos < _len(self.decisions):
            d = self.decisions[self.pos]
            i = d[0][d[1]]
            c = make(i)
            if _len(d) > 3 and (i >= _len(d[3]) or self.fp(c) != d[3][i]):
                raise Inconclusive("non-deterministic re-execution: decision %d differs from the recorded one" % self.pos)
            self.solver.add(c)
            self.pos += 1
            return i
        return self.choose([make(i) for i in _range(n)])

    def branch(self, cond):
        raw = self.fp(cond)  # order-insensitive fingerprint (simplify's argument order is not stable)
        cond = z3.simplify(cond)
        if z3.is_true(cond):
            return True
        if z3.is_false(cond):
            return False
        cid = cond.get_id()
        if cid in self.known:  # the same condition was already decided on this path
            return self.known[cid][1]
        r = self.choose([cond, z3.Not(cond)], fp=[raw, raw + 1]) == 0
        self.known[cid] = (cond, r)
        return r

    def backtrack(self):
        while self.decisions:
            d = self.decisions[-1]
            if d[1] + 1 < _len(d[0]):
                d[1] += 1
                return True
            self.decisions.pop()
        return False

    def add_fact(self, cond):
        """a fact that is true of every execution (e.g. 0 <= byte <= 255)"""
        self.solver.add(cond)

    def assume(self, cond):
        if _isinstance(cond, SymBool):
            cond = cond.e
        elif _isinstance(cond, bool):
            if not cond:
                raise Infeasible()
            return
        self.solver.add(cond)
        r = self._check()
        if r == z3.unknown:
            raise Inconclusive("solver unknown on assumption")
        if r != z3.sat:
            raise Infeasible()

    def model_for(self, extra=None):
        """a model of the path (and `extra`), preferring small lengths/offsets so
        that the counterexample can be replayed concretely"""
        ex = [extra] if extra is not None else []
        if self.size_like:
            for lim in (16, 256, 4096, 60000):
                r = self._check(*(ex + [z3.And(*[v <= lim for v in self.size_like])]))
                if r == z3.sat:
                    return self.last_model()
        r = self._check(*ex)
        if r != z3.sat:
            return None
        return self.last_model()

    def prove(self, cond):
        """None if cond holds on every input of this path, else a model"""
        if _isinstance(cond, SymBool):
            cond = cond.e
        if _isinstance(cond, bool):
            if cond:
                return None
            m = self.model_for()
            if m is None:
                raise Inconclusive("no model for failing path")
            return m
        r = self._check(z3.Not(cond))
        if r == z3.unknown:
            raise Inconclusive("solver unknown on property assertion")
        if r == z3.unsat:
            return None
        return self.model_for(z3.Not(cond)) or self.last_model()

    def fresh_name(self, base):
        self.fresh += 1
        return "%s!%d" % (base, self.fresh)

    # -- counterexample extraction ---------------------------------------
    def extract_inputs(self, m):
        out = {}
        for name, (kind, payload) in self.inputs.items():
            if kind == "int":
                out[name] = m.eval(payload, model_completion=True).as_long()
            elif kind == "bool":
                out[name] = z3.is_true(m.eval(payload, model_completion=True))
            elif kind == "real":
                v = m.eval(payload, model_completion=True)
                out[name] = str(v.as_fraction()) if z3.is_rational_value(v) else str(v)
            elif kind == "bytes":
                ln, fn = payload
                n = m.eval(_z(ln), model_completion=True).as_long()
                n = _max(0, _min(n, 70000))
                out[name] = [m.eval(fn(z3.IntVal(i)), model_completion=True).as_long() % 256 for i in _range(n)]
            elif kind == "fn":
                fn, span = payload
                out[name] = _fn_table(m, fn, span)
        return out


def _fn_table(m, fn, span):
    """finite description of an uninterpreted byte function in a model"""
    try:
        fi = m[fn]
        if fi is None:
            return {"default": 0, "table": {}}
        dflt = fi.else_value()
        if z3.is_int_value(dflt):
            tab = {}
            for k in _range(fi.num_entries()):
                e = fi.entry(k)
                tab[str(e.arg_value(0).as_long())] = e.value().as_long() % 256
            return {"default": dflt.as_long() % 256, "table": tab}
    except Exception:
        pass
    return {"default": 0, "table": {str(i): m.eval(fn(z3.IntVal(i)), model_completion=True).as_long() % 256 for i in _range(span)}}


E = Engine()
CONCRETE_PULLS = None  # predicate(term): TwinBuffer.pull_bytes enumerates such a symbolic length instead of carrying symbolic offsets
UNIQUE_VIEWS = False  # TwinBuffer views: resolve symbolic offsets/lengths that the path pins to one value


# --------------------------------------------------------------------------
# proxies
# --------------------------------------------------------------------------
def _z(x):
    if _isinstance(x, SymInt):
        return x.e
    if _isinstance(x, SymBool):
        return z3.If(x.e, 1, 0)
    if _isinstance(x, bool):
        return z3.IntVal(_int(x))
    if _isinstance(x, _int):
        return z3.IntVal(x)
    if z3.is_expr(x):
        return x
    raise Unsupported("cannot turn %r into an integer term" % type(x))


def _zb(x):
    if _isinstance(x, SymBool):
        return x.e
    if _isinstance(x, bool):
        return z3.BoolVal(x)
    if _isinstance(x, SymInt):
        return x.e != 0
    if _isinstance(x, _int):
        return z3.BoolVal(x != 0)
    if z3.is_expr(x):
        return x
    raise Unsupported("cannot turn %r into a boolean term" % type(x))


def is_sym(x):
    return _isinstance(x, (SymInt, SymBool, SymReal, SymBytes, SymRange))


class SymBool:
    __slots__ = ("e",)

    def __init__(self, e):
        self.e = e

    def __bool__(self):
        return E.branch(self.e)

    def __invert__(self):
        return SymBool(z3.Not(self.e))

    def __and__(self, o):
        return SymBool(z3.And(self.e, _zb(o)))

    __rand__ = __and__

    def __or__(self, o):
        return SymBool(z3.Or(self.e, _zb(o)))

    __ror__ = __or__

    def __eq__(self, o):
        if _isinstance(o, (SymBool, bool)):
            return SymBool(self.e == _zb(o))
        return SymBool(z3.If(self.e, 1, 0) == _z(o))

    def __ne__(self, o):
        return ~self.__eq__(o)

    __hash__ = None

    def __repr__(self):
        return "SymBool(%s)" % self.e


def _in_format_context():
    """True when the proxy is being rendered into a string by the code under test
    ('%' formatting, f-string, str.format): the text is never the subject of a
    property, so no path split is made for it."""
    try:
        f = sys._getframe(2)
    except ValueError:
        return False
    import dis

    code = f.f_code.co_code
    i = f.f_lasti
    op = dis.opname[code[i]]
    if op == "BINARY_OP" and code[i + 1] in (6, 19):  # % and %=
        return True
    if op in ("FORMAT_VALUE", "BUILD_STRING", "FORMAT_SIMPLE", "FORMAT_WITH_SPEC"):
        return True
    return False


class SymInt:
    __slots__ = ("e",)

    def __init__(self, e):
        self.e = e

    # arithmetic
    def __add__(s, o):
        if _isinstance(o, (SymReal, float)):
            return SymReal(z3.ToReal(s.e)) + o
        return SymInt(s.e + _z(o))

    __radd__ = __add__

    def __sub__(s, o):
        if _isinstance(o, (SymReal, float)):
            return SymReal(z3.ToReal(s.e)) - o
        return SymInt(s.e - _z(o))

    def __rsub__(s, o):
        if _isinstance(o, (SymReal, float)):
            return o - SymReal(z3.ToReal(s.e))
        return SymInt(_z(o) - s.e)

    def __mul__(s, o):
        if _isinstance(o, (SymReal, float)):
            return SymReal(z3.ToReal(s.e)) * o
        if _isinstance(o, SymInt):
            # (a // b) * b == a - a % b: keeps the arithmetic linear
            for x, y in ((s, o), (o, s)):
                d = E.divq.get(x.e.get_id())
                if d is not None and d[1].get_id() == y.e.get_id():
                    return SymInt(d[0] - d[2])
        return SymInt(s.e * _z(o))

    __rmul__ = __mul__

    def __neg__(s):
        return SymInt(-s.e)

    def __pos__(s):
        return s

    def __abs__(s):
        return SymInt(z3.If(s.e >= 0, s.e, -s.e))

    def __truediv__(s, o):
        return SymReal(z3.ToReal(s.e)) / o

    def __rtruediv__(s, o):
        return _real(o) / SymReal(z3.ToReal(s.e))

    def __floordiv__(s, o):
        return SymInt(_floordiv(s.e, o))

    def __rfloordiv__(s, o):
        return SymInt(_floordiv(_z(o), s))

    def __mod__(s, o):
        return SymInt(_mod(s.e, o))

    def __rmod__(s, o):
        if _isinstance(o, (str, _bytes)):
            return NotImplemented
        return SymInt(_mod(_z(o), s))

    def __divmod__(s, o):
        return s // o, s % o

    def __pow__(s, o):
        if _isinstance(o, _int) and 0 <= o <= 4:
            r = z3.IntVal(1)
            for _ in _range(o):
                r = r * s.e
            return SymInt(r)
        raise Unsupported("SymInt ** %r" % (o,))

    def __rpow__(s, o):
        if o == 2:
            # 2 ** k for small bounded k: enumerate
            k = concretize(s)
            return 2**k
        raise Unsupported("%r ** SymInt" % (o,))

    # comparisons
    def __lt__(s, o):
        if _isinstance(o, (SymReal, float)):
            return SymReal(z3.ToReal(s.e)) < o
        return SymBool(s.e < _z(o))

    def __le__(s, o):
        if _isinstance(o, (SymReal, float)):
            return SymReal(z3.ToReal(s.e)) <= o
        return SymBool(s.e <= _z(o))

    def __gt__(s, o):
        if _isinstance(o, (SymReal, float)):
            return SymReal(z3.ToReal(s.e)) > o
        return SymBool(s.e > _z(o))

    def __ge__(s, o):
        if _isinstance(o, (SymReal, float)):
            return SymReal(z3.ToReal(s.e)) >= o
        return SymBool(s.e >= _z(o))

    def __eq__(s, o):
        if _isinstance(o, (SymInt, SymBool, _int)):
            return SymBool(s.e == _z(o))
        if _isinstance(o, (SymReal, float)):
            return SymReal(z3.ToReal(s.e)) == o
        return False

    def __ne__(s, o):
        if _isinstance(o, (SymInt, SymBool, _int)):
            return SymBool(s.e != _z(o))
        if _isinstance(o, (SymReal, float)):
            return SymReal(z3.ToReal(s.e)) != o
        return True

    def __bool__(s):
        return E.branch(s.e != 0)

    # bit operations
    def __and__(s, o):
        if _isinstance(o, SymInt):
            return SymInt(_bv_binop(s.e, o.e, "and"))
        return SymInt(_and_const(s.e, _int(o)))

    __rand__ = __and__

    def __or__(s, o):
        if _isinstance(o, SymInt):
            return SymInt(_bv_binop(s.e, o.e, "or"))
        c = _int(o)
        return SymInt(s.e + c - _and_const(s.e, c))

    __ror__ = __or__

    def __xor__(s, o):
        if _isinstance(o, SymInt):
            return SymInt(_bv_binop(s.e, o.e, "xor"))
        c = _int(o)
        return SymInt(s.e + c - 2 * _and_const(s.e, c))

    __rxor__ = __xor__

    def __invert__(s):
        return SymInt(-s.e - 1)

    def __lshift__(s, k):
        if _isinstance(k, SymInt):
            k = concretize(k)
        return SymInt(s.e * (1 << _int(k)))

    def __rlshift__(s, o):
        k = concretize(s)
        return o << k

    def __rshift__(s, k):
        if _isinstance(k, SymInt):
            k = concretize(k)
        return SymInt(s.e / (1 << _int(k)))

    def __rrshift__(s, o):
        k = concretize(s)
        return o >> k

    # conversions
    def __index__(s):
        if _in_format_context():
            E.format_sites += 1
            return 0
        return concretize(s)

    def __int__(s):
        if _in_format_context():
            E.format_sites += 1
            return 0
        return concretize(s)

    def __float__(s):
        if _in_format_context():
            E.format_sites += 1
            return 0.0
        raise Unsupported("float(SymInt)")

    def __hash__(s):
        return _sym_hash(s)

    def __format__(s, spec):
        E.format_sites += 1
        return "<sym>"

    def __str__(s):
        return "<sym>"

    def __repr__(s):
        return "SymInt(%s)" % s.e

    def to_bytes(s, length, byteorder="big", signed=False):
        assert not signed
        n = _int(length)
        if n > 0:
            bs = [_norm_item(b) for b in decompose(s.e, n)]
            return SymBytes.from_items(bs if byteorder == "big" else bs[::-1])
        return SymBytes.from_items([])

    def bit_length(s):
        raise Unsupported("SymInt.bit_length")


def _sym_hash(s):
    """hash of a symbolic integer used as a dict/set key.  One decision: the key equals one of the
    registered concrete key constants (then it hashes like that constant), or an earlier symbolic
    key of this path (same hash), or none of them (fresh hash).  Sound as long as every concrete
    key the code later looks up is among the registered constants (sx.register_keys / IntEnum
    members of the shimmed modules) -- stated as an assumption of the obligations using it."""
    v = z3.simplify(s.e)
    if z3.is_int_value(v):
        return hash(v.as_long())
    for t, h in E.key_syms:
        if t.e.get_id() == s.e.get_id():
            return h
    hit = E.hash_memo.get(s.e.get_id())
    if hit is not None:
        return hit[1]
    consts = E.key_consts
    nsyms = _len(E.key_syms)
    total = _len(consts) + nsyms + 1

    def make(i):
        if i < _len(consts):
            return s.e == consts[i]
        if i < total - 1:
            return s.e == E.key_syms[i - _len(consts)][0].e
        return z3.And(*([s.e != c for c in consts] + [s.e != t.e for t, _ in E.key_syms[:nsyms]])) if total > 1 else z3.BoolVal(True)

    i = E.choose_lazy(total, make)
    if i < _len(consts):
        E.hash_memo[s.e.get_id()] = (s, hash(consts[i]))
        return hash(consts[i])
    if i < total - 1:
        return E.key_syms[i - _len(consts)][1]
    h = hash(("symx-key", _len(E.key_syms)))
    E.key_syms.append((s, h))
    return h


def register_keys(values):
    """concrete integers that the code under test may use as dict/set keys (see _sym_hash)"""
    for v in values:
        v = _int(v)
        if v not in E.key_consts_set:
            E.key_consts_set.add(v)
            E.key_consts.append(v)


def _divmod_relaxed(a, b):
    """a // b and a % b for a symbolic positive divisor b without non-linear terms: fresh q, r with
    0 <= r < b, (q == 0) <=> (0 <= a < b), sign(q) = sign(a), |q| <= |a|; the exact tie a = q*b + r is
    only used when the code multiplies q by b again (see SymInt.__mul__).  An over-approximation:
    the path is marked approximate."""
    key = (a.get_id(), b.get_id())
    hit = E.divs.get(key)
    if hit is not None:
        return hit[2], hit[3]
    E.fresh += 1
    q = z3.Int("quo!%d" % E.fresh)
    r = z3.Int("rem!%d" % E.fresh)
    E.add_fact(z3.And(r >= 0, r < b, z3.Implies(a >= 0, z3.And(q >= 0, q <= a)), z3.Implies(a < 0, z3.And(q < 0, q >= a)), (q == 0) == z3.And(a >= 0, a < b), z3.Implies(q >= 1, a >= b)))
    E.divs[key] = (a, b, q, r)
    E.divq[q.get_id()] = (a, b, r)
    E.approx = True
    return q, r


def _floordiv(a, o):
    """Python floor division of z3 Int a by o (int | SymInt)"""
    if _isinstance(o, SymInt):
        ov = z3.simplify(o.e)
        if not z3.is_int_value(ov) and not z3.is_int_value(z3.simplify(a)):
            if E.branch(o.e > 0):
                return _divmod_relaxed(a, o.e)[0]
        if E.branch(o.e > 0):
            return a / o.e
        if E.branch(o.e == 0):
            raise ZeroDivisionError("integer division or modulo by zero")
        return (-a) / (-o.e)
    o = _int(o)
    if o == 0:
        raise ZeroDivisionError("integer division or modulo by zero")
    if o > 0:
        return a / o  # z3 Int division floors for positive divisors
    return (-a) / (-o)


def _mod(a, o):
    if _isinstance(o, SymInt):
        ov = z3.simplify(o.e)
        if not z3.is_int_value(ov) and not z3.is_int_value(z3.simplify(a)):
            if E.branch(o.e > 0):
                return _divmod_relaxed(a, o.e)[1]
        if E.branch(o.e > 0):
            return a % o.e
        if E.branch(o.e == 0):
            raise ZeroDivisionError("integer division or modulo by zero")
        return -((-a) % (-o.e))
    o = _int(o)
    if o == 0:
        raise ZeroDivisionError("integer division or modulo by zero")
    if o > 0:
        return a % o
    return -((-a) % (-o))


def _and_const(x, m):
    """x & m for a concrete m of any sign and a z3 Int x of any sign -> z3 Int"""
    if m == 0:
        return z3.IntVal(0)
    if m < 0:
        return x - _and_const(x, ~m)  # x & m == x - (x & ~m), ~m >= 0
    res = None
    bit = 0
    while m >> bit:
        if (m >> bit) & 1:
            run = 0
            while (m >> (bit + run)) & 1:
                run += 1
            t = ((x / (1 << bit)) % (1 << run)) * (1 << bit)
            res = t if res is None else res + t
            bit += run
        else:
            bit += 1
    return res


BV_WIDTH = 64


def _bv_binop(a, b, op):
    """symbolic (op) symbolic on integers: exact only for 0 <= a, b < 2**64, which
    is proved on the current path first (otherwise the path is inconclusive)."""
    if op in ("or", "xor"):
        # x | y == x ^ y == x + y when the operands occupy disjoint bit ranges: one is a multiple of
        # 2**k and the other lies in [0, 2**k) -- proved on the current path before it is used
        for k in (8, 16, 24, 32, 1, 2, 4, 6, 14, 30, 62):
            w = 1 << k
            for x, y in ((a, b), (b, a)):
                if E.prove(z3.And(x % w == 0, y >= 0, y < w)) is None:
                    return x + y
    lim = 1 << BV_WIDTH
    if E.prove(z3.And(a >= 0, a < lim, b >= 0, b < lim)) is not None:
        raise Inconclusive("symbolic bit operation on operands not provably within 64 bits")
    x, y = z3.Int2BV(a, BV_WIDTH), z3.Int2BV(b, BV_WIDTH)
    r = {"and": x & y, "or": x | y, "xor": x ^ y}[op]
    return z3.BV2Int(r, is_signed=False)


def decompose(e, n):
    """big-endian bytes of (e mod 256**n) as n byte-valued terms.  Linear encoding: fresh byte
    variables b_k in [0,255] and a fresh quotient q with  e == q*256**n + sum b_k*256**(n-1-k)
    (always satisfiable, so adding it as a fact is sound); identical terms share their variables."""
    e = z3.simplify(e)
    if z3.is_int_value(e):
        v = e.as_long() % (256**n)
        return [(v >> (8 * (n - 1 - k))) & 0xFF for k in _range(n)]
    key = (e.get_id(), n)
    hit = E.decomp.get(key)
    if hit is not None:
        return hit[1]
    E.fresh += 1
    tag = E.fresh
    bs = [z3.Int("byte!%d!%d" % (tag, k)) for k in _range(n)]
    q = z3.Int("quot!%d" % tag)
    total = z3.Sum([bs[k] * (256 ** (n - 1 - k)) for k in _range(n)]) if n > 1 else bs[0]
    E.add_fact(z3.And(*[z3.And(b >= 0, b <= 255) for b in bs]))
    E.add_fact(e == q * (256**n) + total)
    E.decomp[key] = (e, bs)  # keep e alive so that its id is not reused
    return bs


def _int_to_bytes_fn(e, n, byteorder):
    if n > 0:
        bs = [_zi(b) for b in decompose(e, n)]
        if byteorder != "big":
            bs = bs[::-1]
        return lambda i: _sel_chain(i, bs)
    return lambda i: z3.IntVal(0)


def _int_to_bytes_fn_divmod(e, n, byteorder):
    if byteorder == "big":
        return lambda i: z3.IntVal(0) if n == 0 else _sel_chain(i, [(e / (1 << (8 * (n - 1 - k)))) % 256 for k in _range(n)])
    return lambda i: z3.IntVal(0) if n == 0 else _sel_chain(i, [(e / (1 << (8 * k))) % 256 for k in _range(n)])


def _sel_chain(i, vals):
    r = vals[-1]
    for k in _range(_len(vals) - 2, -1, -1):
        r = z3.If(i == k, vals[k], r)
    return r


CONCRETIZE_CAP = 64


def concretize(s, cap=None):
    """exhaustive value enumeration as a chain of decisions (value == v | value != v)"""
    if not _isinstance(s, SymInt):
        return s
    if cap is None:
        cap = CONCRETIZE_CAP
    v = z3.simplify(s.e)
    if z3.is_int_value(v):
        return v.as_long()
    n = 0
    while True:
        n += 1
        if n > cap:
            raise Inconclusive("concretisation fan-out above %d for %s" % (cap, s.e))
        if E.pos < _len(E.decisions):
            d = E.decisions[E.pos]
            val = d[2]
        else:
            if E.pos >= E.max_decisions:
                raise Inconclusive("unwinding bound during concretisation")
            r = E._check()
            if r != z3.sat:
                raise Inconclusive("solver %s during concretisation" % r)
            val = E.last_model().eval(s.e, model_completion=True).as_long()
            feas = [0]
            r = E._check(s.e != val)
            if r == z3.unknown:
                raise Inconclusive("solver unknown during concretisation")
            if r == z3.sat:
                feas.append(1)
            d = [feas, 0, val]
            E.decisions.append(d)
        i = d[0][d[1]]
        E.pos += 1
        if i == 0:
            E.solver.add(s.e == val)
            return val
        E.solver.add(s.e != val)


def unique_value(s):
    """the single value s can take on this path, or None when several remain (no decision is recorded)"""
    if not _isinstance(s, SymInt):
        return s
    v = z3.simplify(s.e)
    if z3.is_int_value(v):
        return v.as_long()
    if E.mode != "sym":
        return None
    if E._check() != z3.sat:
        return None
    val = E.last_model().eval(s.e, model_completion=True)
    if not z3.is_int_value(val):
        return None
    if E._check(s.e != val) != z3.unsat:
        return None
    E.solver.add(s.e == val)
    return val.as_long()


# --------------------------------------------------------------------------
# reals standing in for floats (DESIGN 3.5)
# --------------------------------------------------------------------------
def _real(x):
    if _isinstance(x, SymReal):
        return x
    if _isinstance(x, SymInt):
        return SymReal(z3.ToReal(x.e))
    if _isinstance(x, bool):
        return SymReal(z3.RealVal(_int(x)))
    if _isinstance(x, (_int, float)):
        f = Fraction(x)
        return SymReal(z3.RealVal(f.numerator) / z3.RealVal(f.denominator))
    raise Unsupported("cannot turn %r into a real term" % type(x))


def _is_const(e):
    e = z3.simplify(e)
    return z3.is_rational_value(e) or z3.is_int_value(e)


def _sign_only(a, b, op):
    """product / quotient of two symbolic reals as a fresh real constrained by sign facts only
    (DESIGN 3.5); marks the path approximate"""
    E.fresh += 1
    x = z3.Real("%s!%d" % (op, E.fresh))
    pos = z3.Or(z3.And(a > 0, b > 0), z3.And(a < 0, b < 0))
    neg = z3.Or(z3.And(a > 0, b < 0), z3.And(a < 0, b > 0))
    facts = [z3.Implies(pos, x > 0), z3.Implies(neg, x < 0), z3.Implies(a == 0, x == 0)]
    if op == "mul":
        facts.append(z3.Implies(b == 0, x == 0))
        facts.append(z3.Implies(z3.And(a >= 0, b >= 0, b <= 1), x <= a))
        facts.append(z3.Implies(z3.And(a >= 0, b >= 1), x >= a))
    else:
        facts.append(z3.Implies(z3.And(a >= 0, b >= 1), x <= a))
        facts.append(z3.Implies(z3.And(a >= 0, b > 0, b <= 1), x >= a))
        facts.append(z3.Implies(z3.And(a >= 0, b > 0, a <= b), x <= 1))
    E.add_fact(z3.And(*facts))
    E.approx = True
    return x


class SymReal:
    __slots__ = ("e",)

    def __init__(self, e):
        self.e = e

    def __add__(s, o):
        return SymReal(s.e + _real(o).e)

    __radd__ = __add__

    def __sub__(s, o):
        return SymReal(s.e - _real(o).e)

    def __rsub__(s, o):
        return SymReal(_real(o).e - s.e)

    def __mul__(s, o):
        b = _real(o).e
        if not _is_const(s.e) and not _is_const(b):
            return SymReal(_sign_only(s.e, b, "mul"))
        return SymReal(s.e * b)

    __rmul__ = __mul__

    def __truediv__(s, o):
        d = _real(o)
        if E.branch(d.e == 0):
            raise ZeroDivisionError("float division by zero")
        if not _is_const(d.e) and not _is_const(s.e):
            return SymReal(_sign_only(s.e, d.e, "div"))
        return SymReal(s.e / d.e)

    def __rtruediv__(s, o):
        return _real(o).__truediv__(s)

    def __neg__(s):
        return SymReal(-s.e)

    def __abs__(s):
        return SymReal(z3.If(s.e >= 0, s.e, -s.e))

    def __lt__(s, o):
        return SymBool(s.e < _real(o).e)

    def __le__(s, o):
        return SymBool(s.e <= _real(o).e)

    def __gt__(s, o):
        return SymBool(s.e > _real(o).e)

    def __ge__(s, o):
        return SymBool(s.e >= _real(o).e)

    def __eq__(s, o):
        if o is None:
            return False
        return SymBool(s.e == _real(o).e)

    def __ne__(s, o):
        if o is None:
            return True
        return SymBool(s.e != _real(o).e)

    def __bool__(s):
        return E.branch(s.e != 0)

    def __int__(s):
        if _in_format_context():
            return 0
        raise Unsupported("int(SymReal) outside the int shim")

    def __float__(s):
        if _in_format_context():
            return 0.0
        raise Unsupported("float(SymReal)")

    def __format__(s, spec):
        return "<symreal>"

    def __str__(s):
        return "<symreal>"

    __hash__ = None

    def __repr__(s):
        return "SymReal(%s)" % s.e

    def trunc(s):
        """int(float) semantics: truncation toward zero"""
        fl = z3.ToInt(s.e)
        return SymInt(z3.If(s.e >= 0, fl, z3.If(z3.ToReal(fl) == s.e, fl, fl + 1)))


# --------------------------------------------------------------------------
# byte strings: symbolic length, content as a function Int -> Int
# --------------------------------------------------------------------------
def _zi(x):
    """byte item (python int or z3 term) as a z3 term"""
    return z3.IntVal(x) if _isinstance(x, _int) else x


def _norm_item(x):
    """z3 byte term -> python int when it is a numeral"""
    if _isinstance(x, _int):
        return x
    if z3.is_int_value(x):
        return x.as_long()
    return x


def _items_get(items):
    """content function of an explicit list of byte items (python ints or z3 terms)"""
    n = _len(items)

    def get(i):
        if not _isinstance(i, _int):
            i = z3.simplify(i)
            if not z3.is_int_value(i):
                return _sel_chain(i, [_zi(x) for x in items]) if n else z3.IntVal(0)
            i = i.as_long()
        if 0 <= i < n:
            return _zi(items[i])
        return z3.IntVal(0)

    return get


class SymBytes:
    mutable = False
    items = None  # explicit list of byte terms when the length is concrete (fast path)

    def __init__(self, length, get, items=None):
        self.length = length
        self.get = get
        self.items = items

    @staticmethod
    def from_items(items):
        items = list(items)
        return SymBytes(_len(items), _items_get(items), items)

    def materialize(self, limit=4096):
        """explicit byte terms when the length is concrete and small"""
        if self.items is not None:
            return self.items
        n = self.length
        if _isinstance(n, SymInt):
            v = z3.simplify(n.e)
            if not z3.is_int_value(v):
                return None
            n = v.as_long()
        if n > limit:
            return None
        self.items = [_norm_item(z3.simplify(self.get(z3.IntVal(k)))) for k in _range(n)]
        self.length = n
        return self.items

    # -- helpers -----------------------------------------------------------
    @staticmethod
    def of(x):
        """view a concrete bytes-like as SymBytes"""
        if _isinstance(x, SymBytes):
            return x
        b = _bytes(x)
        n = _len(b)
        if n == 0:
            return SymBytes(0, lambda i: z3.IntVal(0), [])
        if n <= 70000:
            return SymBytes.from_items(list(b))
        arr = z3.K(z3.IntSort(), z3.IntVal(0))
        for k, v in enumerate(b):
            if v:
                arr = z3.Store(arr, k, v)
        return SymBytes(n, lambda i: z3.Select(arr, i))

    def byte(self, i):
        """SymInt value of byte i (i: int | SymInt | z3), with its range fact"""
        if self.items is not None and _isinstance(i, _int):
            v = self.items[i]
            if _isinstance(v, _int):
                return v
        else:
            v = z3.simplify(self.get(_z(i)))
        if not z3.is_int_value(v):
            E.add_fact(z3.And(v >= 0, v <= 255))
            return SymInt(v)
        return v.as_long()

    def _norm(self, k):
        n = self.length
        a = 0 if k.start is None else k.start
        b = n if k.stop is None else k.stop
        if k.step not in (None, 1):
            raise Unsupported("extended slice of SymBytes")
        if a < 0:
            a = a + n
            if a < 0:
                a = 0
        if b < 0:
            b = b + n
            if b < 0:
                b = 0
        if a > n:
            a = n
        if b > n:
            b = n
        if b < a:
            b = a
        return a, b

    def slice(self, a, b):
        if self.items is not None and _isinstance(a, _int) and _isinstance(b, _int):
            return SymBytes.from_items(self.items[a:b])
        g = self.get
        az = _z(a)
        ln = b - a
        if _isinstance(ln, SymInt):
            v = z3.simplify(ln.e)
            if z3.is_int_value(v):
                ln = v.as_long()
        return SymBytes(ln, lambda i: g(i + az))

    def __len__(self):
        n = self.length
        if _isinstance(n, SymInt):
            return concretize(n)
        return n

    def __getitem__(self, k):
        if _isinstance(k, slice):
            a, b = self._norm(k)
            return self.slice(a, b)
        n = self.length
        if k < 0:
            k = k + n
        if k < 0 or k >= n:
            raise IndexError("index out of range")
        return self.byte(k)

    def __add__(self, o):
        if not _isinstance(o, (SymBytes, _bytes, _bytearray)):
            return NotImplemented
        o = SymBytes.of(o)
        if self.items is not None and o.items is not None:
            return SymBytes.from_items(self.items + o.items)
        if self.items is not None and not self.items:
            return SymBytes(o.length, o.get, o.items)
        if o.items is not None and not o.items:
            return SymBytes(self.length, self.get, self.items)
        n1 = self.length
        g1, g2 = self.get, o.get
        n1z = _z(n1)
        return SymBytes(n1 + o.length, lambda i: z3.If(i < n1z, g1(i), g2(i - n1z)))

    def __radd__(self, o):
        return SymBytes.of(o).__add__(self)

    def __bool__(self):
        n = self.length
        if _isinstance(n, SymInt):
            return bool(n != 0)
        return n != 0

    def __iter__(self):
        n = _len(self)
        for i in _range(n):
            yield self.byte(i)

    def eq_term(self, o):
        """z3 Bool: same length and same content (bounded expansion for concrete
        lengths, otherwise Skolem-free quantifier is avoided by requiring that one
        side has a concrete length)"""
        o = SymBytes.of(o)
        la, lb = self.length, o.length
        if _isinstance(la, SymInt) and not _isinstance(lb, SymInt):
            return o.eq_term(self)
        if _isinstance(la, SymInt):
            # both symbolic: bounded by concretising one length
            n = concretize(la)
            return SymBytes(n, self.get).eq_term(o)
        ia, ib = self.materialize(), (o.materialize() if not _isinstance(lb, SymInt) else None)
        if ia is not None and ib is not None:
            if _len(ia) != _len(ib):
                return z3.BoolVal(False)
            conj = []
            for x, y in zip(ia, ib):
                if _isinstance(x, _int) and _isinstance(y, _int):
                    if x != y:
                        return z3.BoolVal(False)
                else:
                    conj.append(_zi(x) == _zi(y))
            return z3.And(*conj) if conj else z3.BoolVal(True)
        conj = [_z(lb) == la]
        for i in _range(la):
            conj.append((_zi(ia[i]) if ia is not None else self.get(z3.IntVal(i))) == (_zi(ib[i]) if ib is not None and i < _len(ib) else o.get(z3.IntVal(i))))
        return z3.And(*conj)

    def __eq__(self, o):
        if not _isinstance(o, (SymBytes, _bytes, _bytearray)):
            return False
        return bool(SymBool(self.eq_term(o)))

    def __ne__(self, o):
        return not self.__eq__(o)

    __hash__ = None

    def __repr__(self):
        return "SymBytes(len=%r)" % (self.length,)

    def __format__(self, spec):
        return "<symbytes>"

    def hex(self):
        return "<symhex>"

    def decode(self, *a, **k):
        raise Unsupported("SymBytes.decode")

    def startswith(self, prefix):
        p = _bytes(prefix)
        n = _len(p)
        if not bool(self.length >= n):
            return False
        return self.slice(0, n) == p


class SymByteArray(SymBytes):
    mutable = True

    def __init__(self, init=None):
        if init is None:
            SymBytes.__init__(self, 0, lambda i: z3.IntVal(0))
        elif _isinstance(init, SymBytes):
            SymBytes.__init__(self, init.length, init.get, init.items)
        elif _isinstance(init, (SymInt, _int)):
            if _isinstance(init, _int) and init < 0:
                raise ValueError("negative count")
            if _isinstance(init, SymInt) and bool(init < 0):
                raise ValueError("negative count")
            SymBytes.__init__(self, init, lambda i: z3.IntVal(0))
        else:
            v = SymBytes.of(init)
            SymBytes.__init__(self, v.length, v.get, v.items)

    def __iadd__(self, o):
        r = SymBytes.__add__(self, o)
        self.length, self.get, self.items = r.length, r.get, r.items
        return self

    def __setitem__(self, k, v):
        if not _isinstance(k, slice):
            n = self.length
            if k < 0:
                k = k + n
            if k < 0 or k >= n:
                raise IndexError("bytearray index out of range")
            g = self.get
            kz, vz = _z(k), _z(v)
            self.items = None
            self.get = lambda i: z3.If(i == kz, vz, g(i))
            return
        v = SymBytes.of(v)
        a, b = self._norm(k)
        n = self.length
        self.items = None
        g, gv = self.get, v.get
        az, bz, vl = _z(a), _z(b), _z(v.length)
        self.length = n - (b - a) + v.length
        self.get = lambda i: z3.If(i < az, g(i), z3.If(i < az + vl, gv(i - az), g(i - vl + (bz - az))))

    def __delitem__(self, k):
        if not _isinstance(k, slice):
            raise Unsupported("del bytearray[i]")
        a, b = self._norm(k)
        n = self.length
        self.items = None
        g = self.get
        az, bz = _z(a), _z(b)
        self.length = n - (b - a)
        self.get = lambda i: z3.If(i < az, g(i), g(i + (bz - az)))


class SymRange:
    """range() whose bounds may be symbolic (step 1 only when symbolic)"""

    def __init__(self, start, stop=None, step=1):
        if stop is None:
            start, stop = 0, start
        self.start, self.stop, self.step = start, stop, step

    def __contains__(self, v):
        if self.step != 1:
            raise Unsupported("SymRange with step")
        r = (v >= self.start) & (v < self.stop) if _isinstance(v >= self.start, SymBool) or _isinstance(v < self.stop, SymBool) else (self.start <= v < self.stop)
        return bool(r)

    def __eq__(self, o):
        if not _isinstance(o, (SymRange, _range)):
            return False
        return bool(self.start == o.start) and bool(self.stop == o.stop)

    __hash__ = None

    def __iter__(self):
        i = self.start
        if self.step > 0:
            while i < self.stop:
                yield i
                i = i + self.step
        else:
            while i > self.stop:
                yield i
                i = i + self.step

    def __len__(self):
        n = self.stop - self.start
        if _isinstance(n, SymInt):
            n = concretize(n)
        return _max(0, n)

    def __repr__(self):
        return "SymRange(%r, %r)" % (self.start, self.stop)


# --------------------------------------------------------------------------
# shims for builtins, injected into module globals of the code under test
# --------------------------------------------------------------------------
def sym_len(x):
    if _isinstance(x, SymBytes):
        return x.length
    return _len(x)


class _BytesMeta(type):
    def __instancecheck__(cls, obj):
        return _isinstance(obj, (_bytes, SymBytes)) and not getattr(obj, "mutable", False)


class sym_bytes(metaclass=_BytesMeta):
    """shim for the name `bytes`"""

    def __new__(cls, x=None, *a):
        if x is None:
            return b""
        if _isinstance(x, SymBytes):
            return SymBytes(x.length, x.get, x.items)
        if _isinstance(x, SymInt):
            return SymBytes(x, lambda i: z3.IntVal(0))
        if _isinstance(x, (list, tuple)) and any(_isinstance(v, SymInt) for v in x):
            return SymBytes.from_items([_norm_item(_z(v)) if not _isinstance(v, _int) else v for v in x])
        return _bytes(x, *a)

    fromhex = _bytes.fromhex

    @staticmethod
    def join(parts):
        return _bytes().join(parts)


class _ByteArrayMeta(type):
    def __instancecheck__(cls, obj):
        return _isinstance(obj, (_bytearray, SymByteArray))


class sym_bytearray(metaclass=_ByteArrayMeta):
    def __new__(cls, x=None, *a):
        return SymByteArray(x)


def sym_range(*a):
    if any(_isinstance(v, SymInt) for v in a):
        return SymRange(*a)
    return SymRange(*a) if E.mode == "sym" and _RANGE_ALWAYS_SYM[0] else _range(*a)


_RANGE_ALWAYS_SYM = [True]


def sym_min(*a, **kw):
    if _len(a) == 1:
        a = list(a[0])
    if kw or not any(_isinstance(v, (SymInt, SymReal)) for v in a):
        return _min(*a, **kw) if _len(a) > 1 else _min(a, **kw)
    r = a[0]
    for v in a[1:]:
        r = _ite(v < r, v, r)
    return r


def sym_max(*a, **kw):
    if _len(a) == 1:
        a = list(a[0])
    if kw or not any(_isinstance(v, (SymInt, SymReal)) for v in a):
        return _max(*a, **kw) if _len(a) > 1 else _max(a, **kw)
    r = a[0]
    for v in a[1:]:
        r = _ite(v > r, v, r)
    return r


def _ite(c, a, b):
    """if-then-else without forking when the branches are numeric terms"""
    if _isinstance(c, bool):
        return a if c else b
    if _isinstance(a, (SymReal, float)) or _isinstance(b, (SymReal, float)):
        return SymReal(z3.If(c.e, _real(a).e, _real(b).e))
    return SymInt(z3.If(c.e, _z(a), _z(b)))


class _IntMeta(type):
    def __instancecheck__(cls, obj):
        return _isinstance(obj, (_int, SymInt))


class sym_int(metaclass=_IntMeta):
    """shim for the name `int`"""

    def __new__(cls, x=0, *a):
        if _isinstance(x, SymInt):
            return x
        if _isinstance(x, SymBool):
            return SymInt(z3.If(x.e, 1, 0))
        if _isinstance(x, SymReal):
            return x.trunc()
        try:
            return _int(x, *a)
        except (ValueError, TypeError, OverflowError) as exc:
            exc._from_builtin = True  # int() itself refused the concrete argument: behaviour of the code under test
            raise

    @staticmethod
    def from_bytes(b, byteorder="big", signed=False):
        if not _isinstance(b, SymBytes):
            return _int.from_bytes(b, byteorder, signed=signed)
        assert not signed
        n = _len(b)
        v = 0
        idx = _range(n) if byteorder == "big" else _range(n - 1, -1, -1)
        for i in idx:
            v = v * 256 + b.byte(i)
        return v


def sym_isinstance(obj, cls):
    if cls is _int or (_isinstance(cls, tuple) and _int in cls):
        if _isinstance(obj, SymInt):
            return True
    if cls is _bytes or (_isinstance(cls, tuple) and _bytes in cls):
        if _isinstance(obj, SymBytes) and not obj.mutable:
            return True
    if cls is float or (_isinstance(cls, tuple) and float in cls):
        if _isinstance(obj, SymReal):
            return True
    return _isinstance(obj, cls)


def sym_abs(x):
    return x.__abs__() if _isinstance(x, (SymInt, SymReal)) else _abs(x)


def sym_sum(it, start=0):
    r = start
    for v in it:
        r = r + v
    return r


SHIMS = {
    "len": sym_len,
    "bytes": sym_bytes,
    "bytearray": sym_bytearray,
    "range": sym_range,
    "min": sym_min,
    "max": sym_max,
    "int": sym_int,
    "isinstance": sym_isinstance,
    "abs": sym_abs,
    "sum": sym_sum,
}


KEY_SEED = set()


class shimmed:
    """context manager: inject shadowing globals into modules; restore on exit"""

    def __init__(self, spec):
        # spec: {module: [names] | {name: obj}}
        self.spec = spec
        self.saved = []

    def __enter__(self):
        import enum

        for mod in self.spec:
            for v in list(mod.__dict__.values()):
                if _isinstance(v, type) and issubclass(v, enum.IntEnum):
                    KEY_SEED.update(_int(m) for m in v)
        for mod, names in self.spec.items():
            items = names.items() if _isinstance(names, dict) else [(n, SHIMS[n]) if _isinstance(n, str) else n for n in names]
            for n, obj in items:
                had = n in mod.__dict__
                self.saved.append((mod, n, had, mod.__dict__.get(n)))
                mod.__dict__[n] = obj
        return self

    def __exit__(self, *a):
        for mod, n, had, old in reversed(self.saved):
            if had:
                mod.__dict__[n] = old
            else:
                del mod.__dict__[n]
        self.saved = []
        return False

    def describe(self):
        return {m.__name__: sorted((x if _isinstance(x, str) else x[0]) for x in n) for m, n in self.spec.items()}


# --------------------------------------------------------------------------
# harness-side API (mode agnostic)
# --------------------------------------------------------------------------
def Int(name, lo=None, hi=None, size_like=True):
    if E.mode == "replay":
        v = E.replay_values.get(name, lo if lo is not None else 0)
        return _int(v)
    x = z3.Int(name)
    E.inputs[name] = ("int", x)
    if size_like:
        E.size_like.append(x)
    if lo is not None:
        E.add_fact(x >= lo)
    if hi is not None:
        E.add_fact(x <= hi)
    return SymInt(x)


def Real(name, lo=None, hi=None):
    if E.mode == "replay":
        return float(Fraction(E.replay_values.get(name, "0")))
    x = z3.Real(name)
    E.inputs[name] = ("real", x)
    if lo is not None:
        E.add_fact(x >= _real(lo).e)
    if hi is not None:
        E.add_fact(x <= _real(hi).e)
    return SymReal(x)


def Bool(name):
    """a symbolic boolean decided immediately (returns a plain bool)"""
    if E.mode == "replay":
        return bool(E.replay_values.get(name, False))
    x = z3.Bool(name)
    E.inputs[name] = ("bool", x)
    return E.branch(x)


def SBool(name):
    """a symbolic boolean that is only decided when (and if) the code under test looks at it"""
    if E.mode == "replay":
        return bool(E.replay_values.get(name, False))
    x = z3.Bool(name)
    E.inputs[name] = ("bool", x)
    return SymBool(x)


def Choice(name, n):
    """solver-chosen index in range(n) (a decision)"""
    if E.mode == "replay":
        return _int(E.replay_values.get(name, 0))
    x = z3.Int(name)
    E.inputs[name] = ("int", x)
    E.add_fact(z3.And(x >= 0, x < n))
    return E.choose([x == i for i in _range(n)])


def Fn(name, span=64):
    """uninterpreted byte content function offset -> byte"""
    if E.mode == "replay":
        d = E.replay_values.get(name) or {"default": 0, "table": {}}
        tab, dflt = d["table"], d["default"]
        return lambda i: tab.get(str(i), dflt)
    f = z3.Function(name, z3.IntSort(), z3.IntSort())
    E.inputs[name] = ("fn", (f, span))
    return f


def Bytes(name, maxlen, minlen=0):
    """byte string with symbolic length in [minlen, maxlen] and symbolic content"""
    if E.mode == "replay":
        return _bytes(E.replay_values.get(name, [0] * minlen))
    f = z3.Function(name, z3.IntSort(), z3.IntSort())
    if minlen == maxlen:
        n = maxlen
    else:
        nz = z3.Int(name + ".len")
        E.add_fact(z3.And(nz >= minlen, nz <= maxlen))
        E.size_like.append(nz)
        n = SymInt(nz)
    E.inputs[name] = ("bytes", (n, f))
    if _isinstance(n, _int) and n <= 2048:
        return SymBytes.from_items([f(z3.IntVal(k)) for k in _range(n)])
    return SymBytes(n, lambda i: f(i))


def BytesOf(fn, offset, length):
    """the bytes fn(offset) .. fn(offset+length-1)"""
    if E.mode == "replay":
        if length > 1 << 22:
            raise Unreplayable("counterexample needs a %d-byte string" % length)
        return _bytes(fn(offset + i) % 256 for i in _range(length))
    oz = _z(offset)
    return SymBytes(length, lambda i: fn(i + oz))


def assume(cond):
    if E.mode == "replay":
        if not cond:
            raise Infeasible()
        return
    E.assume(cond)


def _site():
    f = sys._getframe(2)
    return "%s:%d" % (f.f_code.co_filename.rsplit("/", 1)[-1], f.f_lineno)


def check(cond, msg):
    """property assertion"""
    E.checks_on_path += 1
    if E.mode == "replay":
        if not cond:
            raise Violation(msg, site=_site())
        return
    m = E.prove(cond)
    if m is not None:
        raise Violation(msg, E.extract_inputs(m), site=_site())


def fail(msg):
    """the current (feasible) path is itself a violation"""
    E.checks_on_path += 1
    if E.mode == "replay":
        raise Violation(msg, site=_site())
    m = E.model_for()
    if m is None:
        raise Inconclusive("no model for failing path")
    raise Violation(msg, E.extract_inputs(m), site=_site())


def reached():
    """marks that the path reached a point where the property was evaluated"""
    E.checks_on_path += 1


def check_bytes_eq(a, b, msg):
    """a and b have equal length and content (Skolemised, quantifier free)"""
    E.checks_on_path += 1
    if E.mode == "replay":
        if _bytes(a) != _bytes(b):
            raise Violation(msg, site=_site())
        return
    a, b = SymBytes.of(a), SymBytes.of(b)
    m = E.prove(_z(a.length) == _z(b.length))
    if m is not None:
        raise Violation(msg + " (length)", E.extract_inputs(m), site=_site())
    la = z3.simplify(_z(a.length))
    if z3.is_int_value(la) and la.as_long() <= 4096:
        # concrete length: compare at concrete indexes (the nested selections fold at construction)
        conj = []
        ia, ib = a.materialize(), b.materialize()
        for k in _range(la.as_long()):
            x = ia[k] if ia is not None else a.get(z3.IntVal(k))
            y = ib[k] if ib is not None and k < _len(ib) else b.get(z3.IntVal(k))
            if _isinstance(x, _int) and _isinstance(y, _int):
                if x != y:
                    conj.append(z3.BoolVal(False))
                continue
            c = z3.simplify(_zi(x) == _zi(y))
            if not z3.is_true(c):
                conj.append(c)
        if conj:
            m = E.prove(z3.And(*conj))
            if m is not None:
                raise Violation(msg + " (content)", E.extract_inputs(m), site=_site())
        return
    i = z3.Int(E.fresh_name("sk"))
    m = E.prove(z3.Implies(z3.And(i >= 0, i < _z(a.length)), a.get(i) == b.get(i)))
    if m is not None:
        raise Violation(msg + " (content)", E.extract_inputs(m), site=_site())


def length_of(x):
    return x.length if _isinstance(x, SymBytes) else _len(x)


def ite(c, a, b):
    if _isinstance(c, SymBool):
        return _ite(c, a, b)
    return a if c else b


def And(*cs):
    if E.mode == "replay" or not any(_isinstance(c, SymBool) or z3.is_expr(c) for c in cs):
        return all(cs)
    return SymBool(z3.And(*[_zb(c) for c in cs]))


def Or(*cs):
    if E.mode == "replay" or not any(_isinstance(c, SymBool) or z3.is_expr(c) for c in cs):
        return any(cs)
    return SymBool(z3.Or(*[_zb(c) for c in cs]))


def Not(c):
    if _isinstance(c, SymBool):
        return ~c
    if z3.is_expr(c):
        return SymBool(z3.Not(c))
    return not c


def Implies(a, b):
    return Or(Not(a), b)


def truth(c):
    """force a decision on a condition, returning a plain bool"""
    if _isinstance(c, SymBool):
        return bool(c)
    if z3.is_expr(c):
        return E.branch(c)
    return bool(c)


# --------------------------------------------------------------------------
# explorer
# --------------------------------------------------------------------------
class Result:
    def __init__(self):
        self.status = "holds"  # holds | violation | inconclusive
        self.paths = 0
        self.paths_with_checks = 0
        self.infeasible = 0
        self.queries = 0
        self.solver_time = 0.0
        self.wall = 0.0
        self.violations = []  # dicts
        self.inconclusive = []  # reasons
        self.samples = []
        self.format_sites = 0
        self.exhaustive = False

    def as_dict(self):
        return dict(self.__dict__)


def _innermost_in_vf(tb):
    last = None
    while tb is not None:
        last = tb
        tb = tb.tb_next
    fn = last.tb_frame.f_code.co_filename if last else ""
    return "/vf/" in fn and "/props/" not in fn and not fn.endswith("twinbuf.py") and not fn.endswith("model.py")


def explore(fn, max_paths=200000, max_seconds=600.0, stop_on_violation=True, seed=0, max_decisions=600, keep_samples=3, max_violations=8, path_seconds=120):
    """run harness fn() once per feasible path"""
    E.mode = "sym"
    E.reset_all(seed=seed, max_decisions=max_decisions)
    register_keys(sorted(KEY_SEED))
    res = Result()
    t0 = time.perf_counter()
    seen_viol = set()
    import signal

    def _alarm(signum, frame):
        raise Inconclusive("single path exceeded %ds" % path_seconds)

    old_handler = signal.signal(signal.SIGALRM, _alarm)
    while True:
        E.start_run()
        signal.alarm(path_seconds)
        try:
            fn()
        except Infeasible:
            res.infeasible += 1
        except Inconclusive as exc:
            res.inconclusive.append(exc.reason)
        except Violation as v:
            key = (v.msg, v.site)
            if key not in seen_viol:
                seen_viol.add(key)
                res.violations.append({"msg": v.msg, "site": v.site, "inputs": v.inputs, "approx": E.approx})
        except Unsupported as exc:
            res.inconclusive.append("unsupported: %s" % exc)
        except RecursionError:
            res.inconclusive.append("recursion limit")
        except Exception as exc:  # escaped from the code under test or the harness
            tb = exc.__traceback__
            where = traceback.extract_tb(tb)[-1]
            site = "%s:%s" % (where.filename.rsplit("/", 1)[-1], where.name)
            if _innermost_in_vf(tb) and not _isinstance(exc, AssertionError) and not getattr(exc, "_from_builtin", False):
                res.inconclusive.append("engine error %s: %s at %s:%d" % (type(exc).__name__, exc, where.filename.rsplit("/", 1)[-1], where.lineno))
            else:
                msg = "unexpected %s escaped at %s" % (type(exc).__name__, site)
                key = (msg, site)
                if key not in seen_viol:
                    seen_viol.add(key)
                    m = E.model_for()
                    inputs = E.extract_inputs(m) if m is not None else None
                    res.violations.append({"msg": msg, "site": site, "inputs": inputs, "exc": "%s: %s" % (type(exc).__name__, exc), "approx": E.approx})
        finally:
            signal.alarm(0)
        res.paths += 1
        if E.checks_on_path:
            res.paths_with_checks += 1
            if _len(res.samples) < keep_samples:
                m = None
                try:
                    m = E.model_for()
                except BaseException:
                    pass
                if m is not None:
                    try:
                        res.samples.append({"path": res.paths, "decisions": E.pos, "checks": E.checks_on_path, "witness_inputs": _short(E.extract_inputs(m))})
                    except BaseException:
                        pass
        if res.violations and (stop_on_violation or _len(res.violations) >= max_violations):
            break
        if not E.backtrack():
            res.exhaustive = True
            break
        if res.paths >= max_paths:
            res.inconclusive.append("path budget %d exhausted" % max_paths)
            break
        if time.perf_counter() - t0 > max_seconds:
            res.inconclusive.append("time budget %.0fs exhausted" % max_seconds)
            break
    signal.signal(signal.SIGALRM, old_handler)
    res.queries = E.queries
    res.solver_time = E.solver_time
    res.format_sites = E.format_sites
    res.wall = time.perf_counter() - t0
    if res.violations:
        res.status = "violation"
    elif res.inconclusive:
        res.status = "inconclusive"
    return res


def _short(d):
    out = {}
    for k, v in d.items():
        if _isinstance(v, list) and _len(v) > 24:
            out[k] = v[:24] + ["...(%d)" % _len(v)]
        else:
            out[k] = v
    return out


def replay(fn, values):
    """run the same harness concretely (no shims) -> None | Violation-like dict"""
    E.mode = "replay"
    E.replay_values = values
    E.checks_on_path = 0
    try:
        fn()
    except Infeasible:
        return {"reproduced": False, "why": "assumption not met by the concrete values"}
    except Unreplayable as u:
        return {"reproduced": False, "why": "unreplayable: %s" % u}
    except Violation as v:
        return {"reproduced": True, "msg": v.msg, "site": v.site}
    except Exception as exc:
        where = traceback.extract_tb(exc.__traceback__)[-1]
        site = "%s:%s" % (where.filename.rsplit("/", 1)[-1], where.name)
        return {"reproduced": True, "msg": "unexpected %s escaped at %s" % (type(exc).__name__, site), "site": site, "exc": "%s: %s" % (type(exc).__name__, exc)}
    finally:
        E.mode = "sym"
    return {"reproduced": False, "why": "concrete run satisfied every check"}


# --------------------------------------------------------------------------
# strings obtained by decoding symbolic bytes; dict lookup with symbolic keys
# --------------------------------------------------------------------------
class SymStr:
    """result of SymBytes.decode(); supports encode(), equality and truth"""

    def __init__(self, raw, encoding):
        self.raw = raw
        self.encoding = encoding

    def encode(self, encoding="utf-8", errors="strict"):
        return self.raw

    def __eq__(self, o):
        if _isinstance(o, SymStr):
            return self.raw == o.raw
        if _isinstance(o, str):
            try:
                return self.raw == o.encode(self.encoding)
            except UnicodeEncodeError:
                return False
        return False

    def __ne__(self, o):
        return not self.__eq__(o)

    def __hash__(self):
        n = _len(self.raw)
        return hash(_bytes(concretize(self.raw.byte(i)) if _isinstance(self.raw.byte(i), SymInt) else self.raw.byte(i) for i in _range(n)))

    def __bool__(self):
        return bool(self.raw)

    def __len__(self):
        return _len(self.raw)

    def __str__(self):
        return "<symstr>"

    __repr__ = __str__

    def __format__(self, spec):
        return "<symstr>"


def _symbytes_decode(self, encoding="utf-8", errors="strict"):
    enc = encoding.lower().replace("-", "")
    n = _len(self)  # concretises a symbolic length (bounded by the harness)
    if enc in ("ascii", "utf8"):
        for i in _range(n):
            b = self.byte(i)
            if b >= 128:
                if enc == "ascii":
                    if errors == "strict":
                        raise UnicodeDecodeError("ascii", b"\x80", 0, 1, "ordinal not in range(128)")
                elif errors != "strict":
                    return SymStr(SymBytes(n, self.get, self.items), "utf8")  # lenient decoding never fails
                else:
                    # a byte >= 0x80: whether the whole string is valid UTF-8 depends on its neighbours;
                    # both outcomes are explored (over-approximation of the decoder)
                    # one decision per distinct content: decoding equal bytes twice gives the same verdict
                    import hashlib

                    h = hashlib.sha1()
                    for k in _range(n):
                        x = self.items[k] if self.items is not None else self.get(z3.IntVal(k))
                        h.update((str(x) if _isinstance(x, _int) else x.sexpr()).encode())
                    if Bool("utf8_invalid!%s" % h.hexdigest()[:12]):
                        raise UnicodeDecodeError("utf-8", b"\x80", 0, 1, "invalid start byte")
                    return SymStr(SymBytes(n, self.get, self.items), "utf8")
    else:
        raise Unsupported("decode(%r)" % encoding)
    return SymStr(SymBytes(n, self.get), "ascii")


SymBytes.decode = _symbytes_decode


def _sb_endswith(self, suffix):
    p = _bytes(suffix)
    n = _len(p)
    if not bool(self.length >= n):
        return False
    L = self.length
    return self.slice(L - n, L) == p


def _sb_rstrip(self, chars=None):
    ws = _bytes(chars) if chars is not None else b" \t\n\r\x0b\x0c"
    n = _len(self)
    while n > 0:
        c = self.byte(n - 1)
        if truth(Or(*[c == w for w in ws])):
            n -= 1
        else:
            break
    return self.slice(0, n)


def _sb_lstrip(self, chars=None):
    ws = _bytes(chars) if chars is not None else b" \t\n\r\x0b\x0c"
    n = _len(self)
    k = 0
    while k < n:
        c = self.byte(k)
        if truth(Or(*[c == w for w in ws])):
            k += 1
        else:
            break
    return self.slice(k, n)


def _sb_split(self, sep=None, maxsplit=-1):
    if sep is None or _len(sep) != 1:
        raise Unsupported("SymBytes.split with this separator")
    s0 = sep[0]
    n = _len(self)
    out, start, k = [], 0, 0
    while k < n and (maxsplit < 0 or _len(out) < maxsplit):
        if truth(self.byte(k) == s0):
            out.append(self.slice(start, k))
            start = k + 1
        k += 1
    out.append(self.slice(start, n))
    return out


SymBytes.endswith = _sb_endswith
SymBytes.rstrip = _sb_rstrip
SymBytes.lstrip = _sb_lstrip
SymBytes.strip = lambda self, chars=None: _sb_lstrip(_sb_rstrip(self, chars), chars)
SymBytes.split = _sb_split


def _sb_partition(self, sep):
    parts = _sb_split(self, sep, 1)
    if _len(parts) == 2:
        return parts[0], SymBytes.of(sep), parts[1]
    return parts[0], b"", b""


SymBytes.partition = _sb_partition


class SymKeyDict:
    """wraps a dict with concrete int keys so that a lookup with a symbolic key is one
    decision (equals key k1 | ... | kn | absent) instead of hashing the key"""

    def __init__(self, d):
        self.d = d

    def _resolve(self, k):
        if not _isinstance(k, SymInt):
            return k if k in self.d else None
        keys = list(self.d)
        opts = [k.e == _int(c) for c in keys] + [z3.And(*[k.e != _int(c) for c in keys])]
        i = E.choose(opts)
        return keys[i] if i < _len(keys) else None

    def __contains__(self, k):
        return self._resolve(k) is not None

    def __getitem__(self, k):
        r = self._resolve(k)
        if r is None:
            raise KeyError(k)
        return self.d[r]

    def get(self, k, default=None):
        r = self._resolve(k)
        return default if r is None else self.d[r]

    def items(self):
        return self.d.items()

    def keys(self):
        return self.d.keys()

    def values(self):
        return self.d.values()

    def __iter__(self):
        return iter(self.d)

    def __len__(self):
        return _len(self.d)


def BufferClass():
    """the Buffer implementation harness code should construct: the symbolic twin
    while exploring, the real C class when a counterexample is replayed"""
    if E.mode == "replay":
        from aioquic.buffer import Buffer

        return Buffer
    from .twinbuf import TwinBuffer

    return TwinBuffer


def check_same(a, b, msg):
    """structural equality of decoded values (dataclasses, lists, tuples, bytes, ints, strings)"""
    import dataclasses

    if dataclasses.is_dataclass(a) and not _isinstance(a, type):
        check(type(a) is type(b), msg + ": type differs")
        for f in dataclasses.fields(a):
            check_same(getattr(a, f.name), getattr(b, f.name), msg + "." + f.name)
        return
    if _isinstance(a, (list, tuple)) and _isinstance(b, (list, tuple)):
        check(_len(a) == _len(b), msg + ": list length differs")
        for k, (x, y) in enumerate(zip(a, b)):
            check_same(x, y, msg + "[%d]" % k)
        return
    if _isinstance(a, SymStr):
        a = a.raw
        b = b.raw if _isinstance(b, SymStr) else (b.encode("ascii") if _isinstance(b, str) else b)
    elif _isinstance(b, SymStr):
        b = b.raw
        a = a.encode("ascii") if _isinstance(a, str) else a
    if _isinstance(a, (SymBytes, _bytes, _bytearray)) and _isinstance(b, (SymBytes, _bytes, _bytearray)):
        check_bytes_eq(a, b, msg)
        return
    if a is None or b is None:
        check(a is None and b is None, msg + ": None vs value")
        return
    if _isinstance(a, bool) or _isinstance(b, bool):
        check(bool(a) == bool(b), msg)
        return
    check(a == b, msg)
