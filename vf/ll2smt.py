"""ll2smt -- bounded symbolic execution of the LLVM IR clang produces from
aioquic's C helpers (_buffer.c, _crypto.c), over z3 bit-vectors.

* integers are bit-vectors of their IR width, pointers are (object, 64-bit offset)
  pairs with a symbolic base address per object (pointer comparisons and
  ptrtoint are evaluated on base+offset, so wrap-around is visible);
* every load, store, memcpy/memset and every buffer handed to an external
  (CPython / OpenSSL) function carries an in-bounds obligation against the object
  -- or against the struct *field* the pointer was derived from, so that an
  overflow from one member array into the next is reported too;
* externals are contract stubs (see EXTERNALS); allocation failure is out of scope;
* loops are unrolled up to LOOP_BOUND visits per block with an unwinding assertion.

The IR is regenerated from the current sources on every run (compile()).
"""
from __future__ import annotations

import os
import re
import subprocess
import tempfile
import time

import z3

PY_INC = "/root/.pyenv/versions/3.12.1/include/python3.12"
LOOP_BOUND = 12


def compile_ir(c_path, workdir):
    out = os.path.join(workdir, os.path.basename(c_path)[:-2] + ".ll")
    cmd = ["clang", "-O1", "-S", "-emit-llvm", "-std=c99", "-I" + PY_INC, "-DPy_LIMITED_API=0x030A0000", c_path, "-o", out]
    subprocess.run(cmd, check=True, stdout=subprocess.PIPE, stderr=subprocess.PIPE)
    return out


# ----------------------------------------------------------------------------
# types
# ----------------------------------------------------------------------------
class T:
    pass


class TInt(T):
    def __init__(self, bits):
        self.bits = bits

    def __repr__(self):
        return "i%d" % self.bits


class TPtr(T):
    def __init__(self, to):
        self.to = to

    def __repr__(self):
        return "%r*" % (self.to,)


class TArr(T):
    def __init__(self, n, el):
        self.n, self.el = n, el

    def __repr__(self):
        return "[%d x %r]" % (self.n, self.el)


class TStruct(T):
    def __init__(self, fields, name=None):
        self.fields, self.name = fields, name

    def __repr__(self):
        return self.name or "{%s}" % ", ".join(map(repr, self.fields))


class TNamed(T):
    def __init__(self, name):
        self.name = name

    def __repr__(self):
        return self.name


class TFunc(T):
    def __repr__(self):
        return "fn"


class TVoid(T):
    def __repr__(self):
        return "void"


class Module:
    def __init__(self, path):
        self.path = path
        self.structs = {}
        self.globals = {}  # name -> (type, bytes|None)
        self.funcs = {}
        self._parse(open(path).read())

    # -- type helpers -----------------------------------------------------------
    def resolve(self, t):
        while isinstance(t, TNamed):
            if t.name not in self.structs or self.structs[t.name] is None:
                return t  # opaque
            t = self.structs[t.name]
        return t

    def align(self, t):
        t = self.resolve(t)
        if isinstance(t, TInt):
            return max(1, min(8, t.bits // 8))
        if isinstance(t, (TPtr, TFunc)):
            return 8
        if isinstance(t, TArr):
            return self.align(t.el)
        if isinstance(t, TStruct):
            return max([self.align(f) for f in t.fields] or [1])
        raise ValueError("align of %r" % (t,))

    def size(self, t):
        t = self.resolve(t)
        if isinstance(t, TInt):
            return max(1, (t.bits + 7) // 8)
        if isinstance(t, (TPtr, TFunc)):
            return 8
        if isinstance(t, TArr):
            return t.n * self.size(t.el)
        if isinstance(t, TStruct):
            off = 0
            for f in t.fields:
                a = self.align(f)
                off = (off + a - 1) // a * a
                off += self.size(f)
            a = self.align(t)
            return (off + a - 1) // a * a
        raise ValueError("size of opaque %r" % (t,))

    def field_off(self, t, i):
        t = self.resolve(t)
        off = 0
        for k, f in enumerate(t.fields):
            a = self.align(f)
            off = (off + a - 1) // a * a
            if k == i:
                return off, f
            off += self.size(f)
        raise IndexError(i)

    # -- parsing ----------------------------------------------------------------
    TOKEN = re.compile(r'c"(?:[^"\\]|\\.)*"|"[^"]*"|%[-a-zA-Z$._0-9]+|@[-a-zA-Z$._0-9]+|![a-zA-Z._0-9]*|#\d+|-?\d+|\.\.\.|[a-zA-Z_][a-zA-Z_0-9.]*|[()\[\]{},*=<>:]')

    def _tok(self, s):
        s = s.split(" ; ")[0] if " ; " in s else s
        return self.TOKEN.findall(s)

    def _type(self, tk, i):
        """parse a type starting at tk[i] -> (type, next index)"""
        t0 = tk[i]
        if t0 == "void":
            t, i = TVoid(), i + 1
        elif re.fullmatch(r"i\d+", t0):
            t, i = TInt(int(t0[1:])), i + 1
        elif t0.startswith("%"):
            t, i = TNamed(t0), i + 1
        elif t0 == "[":
            n = int(tk[i + 1])
            assert tk[i + 2] == "x"
            el, j = self._type(tk, i + 3)
            assert tk[j] == "]", tk[i : j + 1]
            t, i = TArr(n, el), j + 1
        elif t0 == "{":
            fields = []
            j = i + 1
            while tk[j] != "}":
                f, j = self._type(tk, j)
                fields.append(f)
                if tk[j] == ",":
                    j += 1
            t, i = TStruct(fields), j + 1
        elif t0 == "opaque":
            return None, i + 1
        elif t0 == "ptr":
            t, i = TPtr(TInt(8)), i + 1
        else:
            raise ValueError("type? %r in %r" % (t0, tk[max(0, i - 3) : i + 5]))
        while i < len(tk) and tk[i] in ("*", "("):
            if tk[i] == "*":
                t = TPtr(t)
                i += 1
            else:  # function type: skip to matching paren
                depth, j = 0, i
                while True:
                    if tk[j] == "(":
                        depth += 1
                    elif tk[j] == ")":
                        depth -= 1
                        if depth == 0:
                            break
                    j += 1
                t = TFunc()
                i = j + 1
        return t, i

    ATTRS = {"noundef", "nonnull", "nocapture", "readonly", "readnone", "writeonly", "noalias", "immarg", "signext", "zeroext", "inbounds", "nuw", "nsw", "exact", "volatile", "returned", "dereferenceable", "align", "tail", "notail", "musttail", "dso_local", "internal", "local_unnamed_addr", "unnamed_addr", "private", "constant", "global", "external", "fastcc", "ccc", "coldcc"}

    def _skip_attrs(self, tk, i):
        while i < len(tk) and (tk[i] in self.ATTRS):
            if tk[i] in ("align",) and i + 1 < len(tk) and re.fullmatch(r"\d+", tk[i + 1]):
                i += 2
            elif tk[i] == "dereferenceable":
                i += 4
            else:
                i += 1
        return i

    def _value(self, tk, i, ty):
        """parse a value of known type -> (val, next)"""
        t0 = tk[i]
        if t0.startswith("%") or t0.startswith("@"):
            return ("ref", t0), i + 1
        if re.fullmatch(r"-?\d+", t0):
            return ("int", int(t0)), i + 1
        if t0 in ("null", "undef", "poison", "zeroinitializer"):
            return ("null",), i + 1
        if t0 in ("true", "false"):
            return ("int", 1 if t0 == "true" else 0), i + 1
        if t0 == "getelementptr":
            j = self._skip_attrs(tk, i + 1)
            assert tk[j] == "("
            bt, j = self._type(tk, j + 1)
            assert tk[j] == ","
            pt, j = self._type(tk, j + 1)
            base, j = self._value(tk, j, pt)
            idx = []
            while tk[j] == ",":
                j = self._skip_attrs(tk, j + 1)
                it, j = self._type(tk, j)
                iv, j = self._value(tk, j, it)
                idx.append((it, iv))
            assert tk[j] == ")"
            return ("gep", bt, base, idx), j + 1
        if t0 in ("bitcast", "ptrtoint", "inttoptr"):
            assert tk[i + 1] == "("
            st, j = self._type(tk, i + 2)
            v, j = self._value(tk, j, st)
            assert tk[j] == "to"
            dt, j = self._type(tk, j + 1)
            assert tk[j] == ")"
            return ("cast", t0, st, v, dt), j + 1
        raise ValueError("value? %r" % (tk[i : i + 6],))

    def _typed(self, tk, i):
        t, i = self._type(tk, i)
        i = self._skip_attrs(tk, i)
        v, i = self._value(tk, i, t)
        return (t, v), i

    def _parse(self, text):
        lines = text.split("\n")
        i = 0
        while i < len(lines):
            ln = lines[i]
            m = re.match(r"(%[-\w.$]+) = type (.*)", ln)
            if m:
                tk = self._tok(m.group(2))
                t, _ = self._type(tk, 0)
                if isinstance(t, TStruct):
                    t.name = m.group(1)
                self.structs[m.group(1)] = t
                i += 1
                continue
            m = re.match(r"(@[-\w.$]+) = (.*)", ln)
            if m:
                name, rest = m.group(1), m.group(2)
                sm = re.search(r'\[(\d+) x i8\] c"((?:[^"\\]|\\.)*)"', rest)
                if sm:
                    raw = sm.group(2)
                    b = bytearray()
                    k = 0
                    while k < len(raw):
                        if raw[k] == "\\":
                            b.append(int(raw[k + 1 : k + 3], 16))
                            k += 3
                        else:
                            b.append(ord(raw[k]))
                            k += 1
                    self.globals[name] = ("str", bytes(b))
                else:
                    self.globals[name] = ("other", None)
                i += 1
                continue
            m = re.match(r"define .*?(@[-\w.$]+)\((.*)\) .*\{", ln)
            if m:
                fname = m.group(1)
                ptk = self._tok(m.group(2))
                params = []
                j = 0
                while j < len(ptk):
                    t, j = self._type(ptk, j)
                    j = self._skip_attrs(ptk, j)
                    params.append((t, ptk[j]))
                    j += 1
                    if j < len(ptk) and ptk[j] == ",":
                        j += 1
                blocks = {}
                order = []
                cur = "entry"
                blocks[cur] = []
                order.append(cur)
                i += 1
                while lines[i] != "}":
                    l2 = lines[i]
                    bm = re.match(r"([-\w.$]+):", l2)
                    if bm:
                        cur = "%" + bm.group(1)
                        blocks[cur] = []
                        order.append(cur)
                    elif l2.strip():
                        # switch spans several lines
                        if l2.strip().startswith("switch"):
                            while not lines[i].strip().endswith("]"):
                                i += 1
                                l2 += " " + lines[i].strip()
                        blocks[cur].append(l2.strip())
                    i += 1
                self.funcs[fname] = {"params": params, "blocks": blocks, "order": order}
            i += 1


# ----------------------------------------------------------------------------
# memory model
# ----------------------------------------------------------------------------
class Obj:
    _n = 0

    def __init__(self, name, size, content=None, writable=True):
        Obj._n += 1
        self.name = name
        self.uid = Obj._n
        self.size = size  # BV64 term
        self.base = z3.BitVec("base_%s_%d" % (name, self.uid), 64)
        self.arr = content if content is not None else z3.Array("mem_%s_%d" % (name, self.uid), z3.BitVecSort(64), z3.BitVecSort(8))
        self.slots = {}  # concrete offset -> Ptr (pointer-typed contents)
        self.writable = writable

    def clone(self):
        o = object.__new__(Obj)
        o.__dict__.update(self.__dict__)
        o.slots = dict(self.slots)
        return o


class Ptr:
    __slots__ = ("obj", "off", "lo", "hi")

    def __init__(self, obj, off, lo=None, hi=None):
        self.obj, self.off, self.lo, self.hi = obj, off, lo, hi

    def addr(self):
        if self.obj is None:
            return self.off
        return self.obj.base + self.off

    def __repr__(self):
        return "Ptr(%s+%s)" % (self.obj.name if self.obj else "null", z3.simplify(self.off))


def bv(v, bits):
    return z3.BitVecVal(v, bits)


NULL = Ptr(None, bv(0, 64))


class Violation(Exception):
    pass


class PathResult:
    def __init__(self):
        self.ret = None
        self.exc = None
        self.results = []  # values handed to Python constructors
        self.calls = []  # external calls (name, args)
        self.cond = []
        self.state = None


class Unwind(Exception):
    pass


class Unsupported(Exception):
    pass


class Exec:
    """symbolic executor for one function of a Module"""

    def __init__(self, mod, cfg=None):
        self.mod = mod
        self.cfg = cfg or {}
        self.solver = z3.Solver()
        self.solver.set("timeout", 30000)
        self.queries = 0
        self.solver_time = 0.0
        self.paths = []
        self.violations = []  # (kind, detail, model-values)
        self.inconclusive = []
        self.inputs = {}  # name -> term, for model extraction
        self.global_objs = {}
        self.fresh = 0
        self.accesses = 0

    # -- solver -----------------------------------------------------------------
    def check(self, *extra):
        self.queries += 1
        t = time.perf_counter()
        r = self.solver.check(*extra)
        self.solver_time += time.perf_counter() - t
        return r

    def new(self, name, bits):
        self.fresh += 1
        return z3.BitVec("%s_%d" % (name, self.fresh), bits)

    def new_obj(self, name, size, **kw):
        o = Obj(name, size, **kw)
        # live objects sit in user space and do not wrap
        self.solver.add(z3.UGE(o.base, bv(0x10000, 64)), z3.ULE(o.base, bv(1 << 46, 64)), z3.ULE(size, bv(1 << 45, 64)))
        return o

    def gobj(self, name):
        if name not in self.global_objs:
            kind, data = self.mod.globals.get(name, ("other", None))
            if kind == "str":
                arr = z3.K(z3.BitVecSort(64), bv(0, 8))
                for k, c in enumerate(data):
                    arr = z3.Store(arr, bv(k, 64), bv(c, 8))
                o = self.new_obj(name[1:], bv(len(data), 64), content=arr, writable=False)
                o.cstr = data
            else:
                o = self.new_obj(name[1:], bv(4096, 64))
                # a global holding a PyObject* (exception classes, singletons): its value is a named opaque object
                o.slots[0] = Ptr(self.new_obj("val_" + name[1:], bv(64, 64)), bv(0, 64))
            self.global_objs[name] = o
        return self.global_objs[name]

    # -- values -----------------------------------------------------------------
    def val(self, st, ty, v):
        k = v[0]
        rt = self.mod.resolve(ty) if ty is not None else None
        if k == "ref":
            n = v[1]
            if n.startswith("@"):
                if n in self.mod.funcs or n not in self.mod.globals:
                    return Ptr(self.gobj(n), bv(0, 64))
                return Ptr(self.gobj(n), bv(0, 64))
            return st["regs"][n]
        if k == "int":
            return bv(v[1], rt.bits)
        if k == "null":
            if isinstance(rt, TInt):
                return bv(0, rt.bits)
            return NULL
        if k == "gep":
            _, bt, base, idx = v
            p = self.val(st, None, base)
            return self.gep(st, bt, p, [(it, self.val(st, it, iv)) for it, iv in idx])
        if k == "cast":
            _, op, stt, vv, dt = v
            x = self.val(st, stt, vv)
            if op == "bitcast":
                return x
            if op == "ptrtoint":
                return x.addr()
        raise Unsupported("value %r" % (v,))

    def gep(self, st, bt, p, idx):
        off = p.off
        lo, hi = p.lo, p.hi
        t = bt
        first = True
        for it, iv in idx:
            bits = iv.size()
            iv64 = z3.SignExt(64 - bits, iv) if bits < 64 else iv
            if first:
                off = off + iv64 * bv(self.mod.size(t), 64)
                first = False
                continue
            rt = self.mod.resolve(t)
            if isinstance(rt, TStruct):
                fi = z3.simplify(iv).as_long()
                fo, ft = self.mod.field_off(rt, fi)
                base_off = z3.simplify(off)
                off = off + bv(fo, 64)
                # sub-object bounds: the field the pointer now designates
                if z3.is_bv_value(base_off):
                    lo = base_off.as_long() + fo
                    hi = lo + self.mod.size(ft)
                t = ft
            elif isinstance(rt, TArr):
                off = off + iv64 * bv(self.mod.size(rt.el), 64)
                t = rt.el
            else:
                raise Unsupported("gep into %r" % (rt,))
        return Ptr(p.obj, off, lo, hi)

    # -- memory access ------------------------------------------------------------
    def require(self, st, cond, kind, detail):
        """safety obligation: cond must hold on every input reaching here"""
        self.accesses += 1
        cond = z3.simplify(cond)
        if z3.is_true(cond):
            return
        r = self.check(*(st["pc"] + [z3.Not(cond)]))
        if r == z3.unknown:
            self.inconclusive.append("solver unknown at %s" % kind)
            st["pc"].append(cond)
            return
        if r == z3.sat:
            # prefer a small counterexample (replayable): bound every registered input
            for lim in (64, 2048, 70000):
                small = [z3.ULE(t, z3.BitVecVal(lim, t.size())) if not n.endswith(":signed") else z3.And(t >= -lim, t <= lim) for n, t in self.inputs.items() if t.size() > 16]
                if self.check(*(st["pc"] + [z3.Not(cond)] + small)) == z3.sat:
                    break
            else:
                self.check(*(st["pc"] + [z3.Not(cond)]))
            m = self.solver.model()
            vals = {}
            for n, t in self.inputs.items():
                ev = m.eval(t, model_completion=True)
                vals[n] = ev.as_signed_long() if n.endswith(":signed") else ev.as_long()
            # a second, larger witness: an overflow that stays inside the enclosing heap object is
            # invisible to sanitizers, one that runs past it is not
            big = [z3.And(z3.UGE(t, z3.BitVecVal(3000, t.size())), z3.ULE(t, z3.BitVecVal(60000, t.size()))) for n, t in self.inputs.items() if n.endswith("_len")]
            if big and self.check(*(st["pc"] + [z3.Not(cond)] + big)) == z3.sat:
                m2 = self.solver.model()
                alt = {}
                for n, t in self.inputs.items():
                    ev = m2.eval(t, model_completion=True)
                    alt[n] = ev.as_signed_long() if n.endswith(":signed") else ev.as_long()
                vals["_alt"] = alt
            self.violations.append({"kind": kind, "detail": detail, "inputs": vals, "func": st["fn"], "block": st["blk"]})
            # continue on the inputs for which the access is fine
            st["pc"].append(cond)
            if self.check(*st["pc"]) != z3.sat:
                raise Violation()

    def in_bounds(self, st, p, n, kind, detail, write=False):
        """[p, p+n) lies inside the object (and inside the designated field)"""
        if p.obj is None:
            self.require(st, z3.BoolVal(False) if not z3.is_bv(n) else n == 0, kind, detail + " through NULL")
            return
        if write and not p.obj.writable:
            self.require(st, z3.BoolVal(False), kind, detail + " into read-only object")
        n64 = n if z3.is_bv(n) else bv(n, 64)
        size = p.obj.size
        sub = p.lo is not None
        if sub and z3.is_bv_value(z3.simplify(p.off)) and z3.is_bv_value(z3.simplify(n64)):
            # offset and size both fixed at compile time: the optimiser may have merged accesses to
            # adjacent members (e.g. two memsets), so only the enclosing object bounds apply
            sub = False
        lo = bv(p.lo, 64) if sub else bv(0, 64)
        hi = bv(p.hi, 64) if sub else size
        # lo <= off  and  off <= hi  and  n <= hi - off   (no wrap: unsigned compares step by step)
        cond = z3.And(z3.ULE(lo, p.off), z3.ULE(p.off, hi), z3.ULE(n64, hi - p.off), z3.ULE(hi, size))
        self.require(st, cond, kind, detail + " [%s%s]" % (p.obj.name, ("[%d:%d]" % (p.lo, p.hi)) if sub else ""))

    def load(self, st, ty, p):
        rt = self.mod.resolve(ty)
        n = self.mod.size(rt)
        self.in_bounds(st, p, n, "read", "load %r" % (rt,))
        if isinstance(rt, TPtr):
            off = z3.simplify(p.off)
            if not z3.is_bv_value(off):
                raise Unsupported("pointer load at symbolic offset")
            o = off.as_long()
            if o in p.obj.slots:
                return p.obj.slots[o]
            # unknown pointer content: opaque non-null object
            q = Ptr(self.new_obj("opaque", bv(0, 64)), bv(0, 64))
            p.obj.slots[o] = q
            return q
        if isinstance(rt, TInt):
            bs = [z3.Select(p.obj.arr, p.off + bv(k, 64)) for k in range(n)]
            v = bs[0] if n == 1 else z3.Concat(*reversed(bs))
            if rt.bits < 8 * n:
                v = z3.Extract(rt.bits - 1, 0, v)
            return v
        raise Unsupported("load of %r" % (rt,))

    def store(self, st, ty, v, p):
        rt = self.mod.resolve(ty)
        n = self.mod.size(rt)
        self.in_bounds(st, p, n, "write", "store %r" % (rt,), write=True)
        if isinstance(rt, TPtr):
            off = z3.simplify(p.off)
            if not z3.is_bv_value(off):
                raise Unsupported("pointer store at symbolic offset")
            p.obj.slots[off.as_long()] = v
            return
        if isinstance(rt, TInt):
            if rt.bits < 8 * n:
                v = z3.ZeroExt(8 * n - rt.bits, v)
            arr = p.obj.arr
            for k in range(n):
                arr = z3.Store(arr, p.off + bv(k, 64), z3.Extract(8 * k + 7, 8 * k, v))
            p.obj.arr = arr
            return
        raise Unsupported("store of %r" % (rt,))

    def copy(self, st, dst, src, n):
        self.in_bounds(st, src, n, "read", "memcpy source")
        self.in_bounds(st, dst, n, "write", "memcpy destination", write=True)
        i = z3.BitVec("i!cp", 64)
        d, s, do, so = dst.obj.arr, src.obj.arr, dst.off, src.off
        dst.obj.arr = z3.Lambda([i], z3.If(z3.And(z3.UGE(i, do), z3.ULT(i - do, n)), z3.Select(s, i - do + so), z3.Select(d, i)))

    def havoc(self, p, n, name):
        i = z3.BitVec("i!hv", 64)
        fresh = z3.Array("%s_%d" % (name, self._next()), z3.BitVecSort(64), z3.BitVecSort(8))
        d, do = p.obj.arr, p.off
        p.obj.arr = z3.Lambda([i], z3.If(z3.And(z3.UGE(i, do), z3.ULT(i - do, n)), z3.Select(fresh, i - do), z3.Select(d, i)))
        return fresh

    def _next(self):
        self.fresh += 1
        return self.fresh

    # -- driver -------------------------------------------------------------------
    def run(self, fname, args, state_objs=()):
        """explore every path of function fname from the given argument values"""
        f = self.mod.funcs[fname]
        regs = {}
        for (t, n), a in zip(f["params"], args):
            regs[n] = a
        st = {"fn": fname, "regs": regs, "pc": [], "blk": "entry", "prev": None, "ip": 0, "visits": {}, "objs": list(state_objs), "res": PathResult(), "allocas": []}
        work = [st]
        while work:
            st = work.pop()
            try:
                self.step_path(st, work)
            except Violation:
                pass
            except Unwind:
                self.inconclusive.append("unwinding bound %d reached in %s" % (LOOP_BOUND, fname))
            except Unsupported as e:
                self.inconclusive.append("unsupported: %s" % e)
        return self.paths

    def fork(self, st):
        n = dict(st)
        n["regs"] = dict(st["regs"])
        n["pc"] = list(st["pc"])
        n["visits"] = dict(st["visits"])
        # deep-copy objects (arrays are immutable terms; slots dicts are copied)
        mp = {}

        def cp(o):
            if o is None:
                return None
            if id(o) not in mp:
                mp[id(o)] = o.clone()
                for k, q in list(mp[id(o)].slots.items()):
                    mp[id(o)].slots[k] = Ptr(cp(q.obj), q.off, q.lo, q.hi)
            return mp[id(o)]

        for k, v in n["regs"].items():
            if isinstance(v, Ptr):
                n["regs"][k] = Ptr(cp(v.obj), v.off, v.lo, v.hi)
        n["objs"] = [cp(o) for o in st["objs"]]
        if st.get("stack"):
            ns = []
            for fn, blk, prev, ip, regs, d in st["stack"]:
                r2 = dict(regs)
                for k, v in r2.items():
                    if isinstance(v, Ptr):
                        r2[k] = Ptr(cp(v.obj), v.off, v.lo, v.hi)
                ns.append((fn, blk, prev, ip, r2, d))
            n["stack"] = ns
        if "argobjs" in st:
            n["argobjs"] = {k: (cp(o), L) for k, (o, L) in st["argobjs"].items()}
        r = PathResult()
        r.exc, r.results, r.calls = st["res"].exc, list(st["res"].results), list(st["res"].calls)
        n["res"] = r
        n["_objmap"] = mp
        return n

    def step_path(self, st, work):
        while True:
            f = self.mod.funcs[st["fn"]]
            blk = f["blocks"][st["blk"]]
            if st["ip"] == 0:
                c = st["visits"].get(st["blk"], 0) + 1
                st["visits"][st["blk"]] = c
                if c > LOOP_BOUND:
                    raise Unwind()
                # phis are evaluated simultaneously on block entry
                vals = {}
                k = 0
                while k < len(blk) and " = phi " in blk[k]:
                    dst, ty, inc = self.parse_phi(blk[k])
                    for v, lbl in inc:
                        if lbl == st["prev"] or (st["prev"] == "entry" and lbl not in f["blocks"]):
                            vals[dst] = self.val(st, ty, v)
                    k += 1
                st["regs"].update(vals)
                st["ip"] = k
            if st["ip"] >= len(blk):
                raise Unsupported("fell off block")
            ins = blk[st["ip"]]
            st["ip"] += 1
            done = self.exec_ins(st, ins, work)
            if done:
                return

    def goto(self, st, label):
        st["prev"], st["blk"], st["ip"] = st["blk"], label, 0

    def parse_phi(self, ins):
        m = re.match(r"(%[-\w.$]+) = phi (.*)", ins)
        tk = self.mod._tok(m.group(2))
        ty, i = self.mod._type(tk, 0)
        inc = []
        while i < len(tk) and tk[i] == "[":
            v, j = self.mod._value(tk, i + 1, ty)
            assert tk[j] == ","
            lbl = tk[j + 1]
            assert tk[j + 2] == "]"
            inc.append((v, lbl))
            i = j + 3
            if i < len(tk) and tk[i] == ",":
                i += 1
        return m.group(1), ty, inc

    def exec_ins(self, st, ins, work):
        mod = self.mod
        m = re.match(r"(%[-\w.$]+) = (.*)", ins)
        dst = None
        if m:
            dst, ins = m.group(1), m.group(2)
        tk = mod._tok(ins)
        op = tk[0]
        R = st["regs"]
        if op in ("add", "sub", "mul", "and", "or", "xor", "shl", "lshr", "ashr", "udiv", "urem", "sdiv", "srem"):
            i = mod._skip_attrs(tk, 1)
            ty, i = mod._type(tk, i)
            a, i = mod._value(tk, i, ty)
            assert tk[i] == ","
            b, i = mod._value(tk, i + 1, ty)
            x, y = self.val(st, ty, a), self.val(st, ty, b)
            R[dst] = {"add": lambda: x + y, "sub": lambda: x - y, "mul": lambda: x * y, "and": lambda: x & y, "or": lambda: x | y, "xor": lambda: x ^ y, "shl": lambda: x << y, "lshr": lambda: z3.LShR(x, y), "ashr": lambda: x >> y, "udiv": lambda: z3.UDiv(x, y), "urem": lambda: z3.URem(x, y), "sdiv": lambda: x / y, "srem": lambda: z3.SRem(x, y)}[op]()
            return False
        if op == "icmp":
            pred = tk[1]
            ty, i = mod._type(tk, 2)
            a, i = mod._value(tk, i, ty)
            b, i = mod._value(tk, i + 1, ty)
            x, y = self.val(st, ty, a), self.val(st, ty, b)
            if isinstance(x, Ptr):
                x = x.addr()
            if isinstance(y, Ptr):
                y = y.addr()
            c = {"eq": lambda: x == y, "ne": lambda: x != y, "ugt": lambda: z3.UGT(x, y), "uge": lambda: z3.UGE(x, y), "ult": lambda: z3.ULT(x, y), "ule": lambda: z3.ULE(x, y), "sgt": lambda: x > y, "sge": lambda: x >= y, "slt": lambda: x < y, "sle": lambda: x <= y}[pred]()
            R[dst] = z3.If(c, bv(1, 1), bv(0, 1))
            return False
        if op in ("zext", "sext", "trunc", "bitcast", "ptrtoint", "inttoptr"):
            sty, i = mod._type(tk, 1)
            v, i = mod._value(tk, i, sty)
            assert tk[i] == "to"
            dty, i = mod._type(tk, i + 1)
            x = self.val(st, sty, v)
            if op == "bitcast":
                R[dst] = x
            elif op == "ptrtoint":
                R[dst] = x.addr()
            elif op == "inttoptr":
                raise Unsupported("inttoptr")
            else:
                sb, db = x.size(), mod.resolve(dty).bits
                R[dst] = z3.ZeroExt(db - sb, x) if op == "zext" else z3.SignExt(db - sb, x) if op == "sext" else z3.Extract(db - 1, 0, x)
            return False
        if op == "getelementptr":
            i = mod._skip_attrs(tk, 1)
            bt, i = mod._type(tk, i)
            assert tk[i] == ","
            (pt, pv), i = mod._typed(tk, i + 1)
            idx = []
            while i < len(tk) and tk[i] == ",":
                (it, iv), i = mod._typed(tk, i + 1)
                idx.append((it, self.val(st, it, iv)))
            R[dst] = self.gep(st, bt, self.val(st, pt, pv), idx)
            return False
        if op == "alloca":
            ty, i = mod._type(tk, 1)
            o = self.new_obj("alloca" + dst.replace("%", "_"), bv(mod.size(ty), 64))
            st["objs"].append(o)
            R[dst] = Ptr(o, bv(0, 64))
            return False
        if op == "load":
            i = mod._skip_attrs(tk, 1)
            ty, i = mod._type(tk, i)
            assert tk[i] == ","
            (pt, pv), i = mod._typed(tk, i + 1)
            R[dst] = self.load(st, ty, self.val(st, pt, pv))
            return False
        if op == "store":
            i = mod._skip_attrs(tk, 1)
            (ty, v), i = mod._typed(tk, i)
            assert tk[i] == ","
            (pt, pv), i = mod._typed(tk, i + 1)
            self.store(st, ty, self.val(st, ty, v), self.val(st, pt, pv))
            return False
        if op == "select":
            (ct, cv), i = mod._typed(tk, 1)
            (t1, v1), i = mod._typed(tk, i + 1)
            (t2, v2), i = mod._typed(tk, i + 1)
            c = self.val(st, ct, cv)
            a, b = self.val(st, t1, v1), self.val(st, t2, v2)
            if isinstance(a, Ptr) or isinstance(b, Ptr):
                cond = z3.simplify(c == bv(1, 1))
                if z3.is_true(cond):
                    R[dst] = a
                elif z3.is_false(cond):
                    R[dst] = b
                else:
                    if self.check(*(st["pc"] + [cond])) == z3.sat:
                        n = self.fork(st)
                        n["pc"].append(cond)
                        self._resume(n, work, a)
                    st["pc"].append(z3.Not(cond))
                    if self.check(*st["pc"]) != z3.sat:
                        return True
                    R[dst] = b
                return False
            R[dst] = z3.If(c == bv(1, 1), a, b)
            return False
        if op == "br":
            if tk[1] == "label":
                self.goto(st, tk[2])
                return False
            c = self.val(st, TInt(1), ("ref", tk[2]) if tk[2].startswith("%") else ("int", 1 if tk[2] == "true" else 0))
            l1, l2 = tk[5], tk[8]
            self.branch(st, work, [(c == bv(1, 1), l1), (c == bv(0, 1), l2)])
            return True
        if op == "switch":
            (ty, v), i = mod._typed(tk, 1)
            assert tk[i] == "," and tk[i + 1] == "label"
            default = tk[i + 2]
            i += 3
            assert tk[i] == "["
            i += 1
            x = self.val(st, ty, v)
            cases = []
            while tk[i] != "]":
                (ct, cv), i = mod._typed(tk, i)
                assert tk[i] == "," and tk[i + 1] == "label"
                cases.append((self.val(st, ct, cv), tk[i + 2]))
                i += 3
            opts = [(x == cv, lbl) for cv, lbl in cases]
            opts.append((z3.And(*[x != cv for cv, _ in cases]), default))
            self.branch(st, work, opts)
            return True
        if op == "ret":
            res = st["res"]
            rv = None
            if tk[1] != "void":
                (ty, v), _ = mod._typed(tk, 1)
                rv = self.val(st, ty, v)
            if st.get("stack"):
                stack = list(st["stack"])
                fn, blk, prev, ip, regs, d = stack.pop()
                st["stack"] = stack
                st["fn"], st["blk"], st["prev"], st["ip"], st["regs"] = fn, blk, prev, ip, regs
                if d:
                    regs[d] = rv
                return False
            res.ret = rv
            res.cond = list(st["pc"])
            res.state = st
            self.paths.append(res)
            return True
        if op in ("call", "tail", "notail", "musttail"):
            i = 1 if op == "call" else 2
            i = mod._skip_attrs(tk, i)
            rty, i = mod._type(tk, i)
            # optional explicit function type was swallowed by _type (as TFunc) when present
            callee = tk[i]
            assert callee.startswith("@"), tk
            assert tk[i + 1] == "("
            i += 2
            args = []
            while tk[i] != ")":
                (at, av), i = mod._typed(tk, i)
                args.append((at, self.val(st, at, av)))
                if tk[i] == ",":
                    i += 1
            if callee in mod.funcs:
                f2 = mod.funcs[callee]
                st.setdefault("stack", []).append((st["fn"], st["blk"], st["prev"], st["ip"], st["regs"], dst))
                st["stack"] = list(st["stack"])
                st["fn"], st["blk"], st["prev"], st["ip"] = callee, "entry", None, 0
                st["regs"] = {pn: a for (pt, pn), (at, a) in zip(f2["params"], args)}
                return False
            r = self.call(st, work, callee, args, rty)
            if isinstance(r, str):
                return True
            if dst:
                R[dst] = r
            return False
        if op == "unreachable":
            return True
        raise Unsupported("instruction %r" % ins)

    def branch(self, st, work, options):
        feas = []
        for cond, lbl in options:
            cond = z3.simplify(cond)
            if z3.is_false(cond):
                continue
            if z3.is_true(cond):
                feas.append((None, lbl))
                continue
            r = self.check(*(st["pc"] + [cond]))
            if r == z3.unknown:
                self.inconclusive.append("solver unknown at branch")
            if r == z3.sat:
                feas.append((cond, lbl))
        for k, (cond, lbl) in enumerate(feas):
            n = st if k == len(feas) - 1 else self.fork(st)
            if cond is not None:
                n["pc"].append(cond)
            self.goto(n, lbl)
            work.append(n)

    # -- externals ------------------------------------------------------------------
    def ret_fork(self, st, work, dst_setter, values):
        """continue the path once per possible return value"""
        raise NotImplementedError

    def call(self, st, work, callee, args, rty):
        name = callee[1:]
        res = st["res"]
        A = [a for _, a in args]
        if name.startswith("llvm.lifetime") or name in ("ERR_clear_error", "free", "EVP_CIPHER_CTX_free", "_Py_Dealloc", "Py_IncRef", "Py_DecRef", "_Py_IncRef", "_Py_DecRef"):
            return None
        if name.startswith("llvm.memcpy"):
            self.copy(st, A[0], A[1], A[2])
            return None
        if name.startswith("llvm.memset"):
            self.in_bounds(st, A[0], A[2], "write", "memset", write=True)
            i = z3.BitVec("i!ms", 64)
            d, do, n, c = A[0].obj.arr, A[0].off, A[2], A[1]
            A[0].obj.arr = z3.Lambda([i], z3.If(z3.And(z3.UGE(i, do), z3.ULT(i - do, n)), c, z3.Select(d, i)))
            return None
        if name in ("bcmp", "memcmp"):
            self.in_bounds(st, A[0], A[2], "read", name)
            self.in_bounds(st, A[1], A[2], "read", name)
            n = z3.simplify(A[2]).as_long()
            eq = z3.And(*[z3.Select(A[0].obj.arr, A[0].off + bv(k, 64)) == z3.Select(A[1].obj.arr, A[1].off + bv(k, 64)) for k in range(n)])
            r = self.new("cmp", 32)
            st["pc"].append((r == 0) == eq)
            return r
        if name == "malloc":
            # a request no allocator can satisfy fails for certain (size_t of a negative Py_ssize_t);
            # failure of a satisfiable request is out of scope
            if self.fork_on(st, work, z3.UGT(A[0], bv(1 << 45, 64)), None, ret_setter=lambda s: NULL):
                return "forked"
            o = self.new_obj("malloc", A[0])
            st["objs"].append(o)
            res.calls.append(("malloc", A[0], o))
            return Ptr(o, bv(0, 64))
        if name in ("_PyArg_ParseTuple_SizeT", "_PyArg_ParseTupleAndKeywords_SizeT", "PyArg_ParseTuple", "PyArg_ParseTupleAndKeywords"):
            kw = "Keywords" in name
            fmt = A[2 if kw else 1].obj.cstr.rstrip(b"\0").decode()
            outs = A[4 if kw else 2 :]
            return self.parse_args(st, work, fmt, outs)
        if name == "PyErr_NoMemory":
            res.exc = "MemoryError"
            return NULL
        if name in ("PyErr_SetString", "PyErr_Format"):
            res.exc = A[0].obj.name if isinstance(A[0], Ptr) and A[0].obj is not None else "?"
            if "exc_from" in self.cfg:
                res.exc = self.cfg["exc_from"].get(id(A[0].obj), res.exc)
            if name == "PyErr_Format":
                return NULL
            return None
        if name == "PyBytes_FromStringAndSize":
            p, n = A
            if self.fork_on(st, work, n < 0, "negative size passed to PyBytes_FromStringAndSize"):
                return "forked"
            self.in_bounds(st, p, n, "read", "PyBytes_FromStringAndSize source")
            res.results.append(("bytes", p, n, p.obj.arr if p.obj else None))
            return Ptr(self.new_obj("pybytes", bv(0, 64)), bv(0, 64))
        if name in ("PyLong_FromUnsignedLong", "PyLong_FromUnsignedLongLong", "PyLong_FromSsize_t", "PyLong_FromLong"):
            res.results.append(("int", A[0], "signed" if name in ("PyLong_FromSsize_t", "PyLong_FromLong") else "unsigned"))
            return Ptr(self.new_obj("pylong", bv(0, 64)), bv(0, 64))
        if name == "_Py_BuildValue_SizeT":
            fmt = A[0].obj.cstr.rstrip(b"\0").decode()
            if fmt == "y#i":
                p, n, v = A[1], A[2], A[3]
                n64 = z3.SignExt(64 - n.size(), n) if n.size() < 64 else n
                if self.fork_on(st, work, n64 < 0, "negative size in Py_BuildValue y#"):
                    return "forked"
                self.in_bounds(st, p, n64, "read", "Py_BuildValue y# source")
                res.results.append(("bytes", p, n64, p.obj.arr))
                res.results.append(("int", v, "signed"))
                return Ptr(self.new_obj("pytuple", bv(0, 64)), bv(0, 64))
            raise Unsupported("Py_BuildValue %r" % fmt)
        if name == "PyType_GetSlot":
            return Ptr(self.new_obj("slot", bv(0, 64)), bv(0, 64))
        # ---- OpenSSL ------------------------------------------------------------
        if name in ("EVP_get_cipherbyname", "EVP_CIPHER_CTX_new"):
            if name == "EVP_get_cipherbyname":
                res.calls.append((name, A[0]))
            return self.nondet_ptr(st, work, name)
        if name == "EVP_CIPHER_CTX_set_key_length":
            res.calls.append((name, A[0], A[1]))
            st["keylen"] = A[1]
            r = self.nondet_int(st, name)
            # contract: succeeds only for a key length the cipher supports (<= EVP_MAX_KEY_LENGTH)
            st["pc"].append(z3.Implies(r != 0, z3.And(A[1] > 0, A[1] <= 64)))
            return r
        if name == "EVP_CipherInit_ex":
            ctx, cipher, eng, key, iv, enc = A
            res.calls.append((name, key, iv, enc))
            if iv.obj is not None:
                # snapshot of the bytes handed over as IV / nonce (functional obligations of C02)
                res.calls.append(("init_iv_bytes", [z3.Select(iv.obj.arr, iv.off + bv(k, 64)) for k in range(self.cfg.get("iv_len", 12))]))
            if key.obj is not None:
                kl = st.get("keylen")
                kl = z3.SignExt(32, kl) if kl is not None else bv(self.cfg.get("key_len", 16), 64)
                self.in_bounds(st, key, kl, "read", "EVP_CipherInit_ex key")
            if iv.obj is not None:
                self.in_bounds(st, iv, bv(self.cfg.get("iv_len", 12), 64), "read", "EVP_CipherInit_ex iv (%d bytes)" % self.cfg.get("iv_len", 12))
            return self.nondet_int(st, name)
        if name == "EVP_CipherUpdate":
            ctx, out, outl, inp, inl = A
            inl64 = z3.SignExt(32, inl)
            res.calls.append((name, out, inp, inl))
            # OpenSSL: inl <= 0 -> *outl = 0, returns (inl == 0), touches nothing
            if self.fork_on(st, work, inl <= 0, None, ret_setter=lambda s: self._update_nop(s, outl, inl)):
                return "forked"
            block = self.cfg.get("block", 1)
            self.in_bounds(st, inp, inl64, "read", "EVP_CipherUpdate input")
            self.in_bounds(st, outl, 4, "write", "EVP_CipherUpdate outl", write=True)
            ol = self.new("outl", 32)
            if out.obj is not None:
                self.in_bounds(st, out, inl64 + bv(block - 1, 64), "write", "EVP_CipherUpdate output (inl + block_size - 1 bytes)", write=True)
                fresh = self.havoc(out, inl64 + bv(block - 1, 64), "cipher_out")
                res.calls.append(("cipher_out", fresh, out, inp, inl))
                if block == 1:
                    st["pc"].append(ol == inl)
                else:
                    st["pc"].append(z3.And(ol >= 0, ol <= inl + (block - 1)))
            else:
                st["pc"].append(ol == inl)  # AAD
            self.store(st, TInt(32), ol, outl)
            return self.nondet_int(st, name)
        if name == "EVP_CipherFinal_ex":
            ctx, out, outl = A
            self.in_bounds(st, outl, 4, "write", "EVP_CipherFinal_ex outl", write=True)
            self.store(st, TInt(32), self.new("outl2", 32), outl)
            if out.obj is not None:
                self.in_bounds(st, out, bv(self.cfg.get("block", 1), 64), "write", "EVP_CipherFinal_ex output", write=True)
            r = self.nondet_int(st, name)
            res.calls.append((name, r))
            return r
        if name == "EVP_CIPHER_CTX_ctrl":
            ctx, typ, arg, p = A
            t = z3.simplify(typ).as_long()
            res.calls.append((name, t, arg, p))
            if t == 0x10:  # GET_TAG
                self.in_bounds(st, p, z3.SignExt(32, arg), "write", "EVP_CTRL_GET_TAG destination (%s bytes)" % z3.simplify(arg), write=True)
                self.havoc(p, z3.SignExt(32, arg), "tag")
            elif t == 0x11 and p.obj is not None:  # SET_TAG
                self.in_bounds(st, p, z3.SignExt(32, arg), "read", "EVP_CTRL_SET_TAG source")
            return self.nondet_int(st, name)
        raise Unsupported("external %s" % name)

    def remap(self, st, p):
        """the pointer p as seen by the (forked) state st"""
        mp = st.get("_objmap")
        if mp and isinstance(p, Ptr) and p.obj is not None and id(p.obj) in mp:
            return Ptr(mp[id(p.obj)], p.off, p.lo, p.hi)
        return p

    def _update_nop(self, st, outl, inl):
        outl = self.remap(st, outl)
        self.store(st, TInt(32), bv(0, 32), outl)
        return z3.If(inl == 0, bv(1, 32), bv(0, 32))

    def nondet_int(self, st, name):
        return self.new("ret_" + name, 32)

    def nondet_ptr(self, st, work, name):
        # fork: NULL or a fresh opaque object
        n = self.fork(st)
        self._resume(n, work, NULL)
        return Ptr(self.new_obj("opaque_" + name, bv(0, 64)), bv(0, 64))

    def _resume(self, n, work, value):
        """complete the pending call instruction in forked state n with `value`"""
        f = self.mod.funcs[n["fn"]]
        ins = f["blocks"][n["blk"]][n["ip"] - 1]
        m = re.match(r"(%[-\w.$]+) = ", ins)
        if m:
            v = value
            if isinstance(v, Ptr) and v.obj is not None and "_objmap" in n and id(v.obj) in n["_objmap"]:
                v = Ptr(n["_objmap"][id(v.obj)], v.off, v.lo, v.hi)
            n["regs"][m.group(1)] = v
        work.append(n)

    def fork_on(self, st, work, cond, violation_msg, ret_setter=None):
        """if cond is feasible, split: the cond-branch ends the call with an error
        return (NULL / ret_setter); returns True when *this* state must stop."""
        c = z3.simplify(cond)
        if z3.is_false(c):
            return False
        r1 = self.check(*(st["pc"] + [c]))
        if r1 != z3.sat:
            return False
        r2 = self.check(*(st["pc"] + [z3.Not(c)]))
        n = self.fork(st) if r2 == z3.sat else st
        n["pc"].append(c)
        if ret_setter is not None:
            self._resume(n, work, ret_setter(n))
        else:
            n["res"].exc = "SystemError"
            self._resume(n, work, NULL)
        if r2 == z3.sat:
            st["pc"].append(z3.Not(c))
            return False
        return True

    def parse_args(self, st, work, fmt, outs):
        """CPython argument parsing contract: on success every output named by the
        format holds an arbitrary value of its C type (no overflow checking for
        B, H, I, K); y# yields a readable buffer of the reported length plus NUL."""
        # failure branch
        n = self.fork(st)
        n["res"].exc = "TypeError"
        self._resume(n, work, bv(0, 32))
        # success branch (this state)
        codes = []
        optional = False
        k = 0
        while k < len(fmt):
            c = fmt[k]
            if c == "|":
                optional = True
                k += 1
                continue
            if fmt[k : k + 2] == "y#":
                codes.append(("y#", optional))
                k += 2
                continue
            codes.append((c, optional))
            k += 1
        oi = 0
        ai = self.cfg.get("arg_index", [0])
        for code, opt in codes:
            present = True
            if opt:
                # optional argument: absent leaves the C variable untouched
                tag = "present_%s_%d" % (code.replace("#", ""), oi)
                pb = self.new(tag, 1)
                self.inputs[tag] = pb
                r = self.check(*(st["pc"] + [pb == 0]))
                if r == z3.sat:
                    n2 = self.fork(st)
                    n2["pc"].append(pb == 0)
                    # remaining optional args absent as well
                    self._resume(n2, work, bv(1, 32))
                st["pc"].append(pb == 1)
            if code == "y#":
                L = self.new("len", 64)
                nm = "arg%d_len" % ai[0]
                self.inputs[nm] = L
                st["pc"].append(z3.And(L >= 0, L <= bv(1 << 40, 64)))
                o = self.new_obj("arg%d" % ai[0], L + 1)
                st["objs"].append(o)
                st.setdefault("argobjs", {})[ai[0]] = (o, L)
                self.inputs["arg%d_byte0" % ai[0]] = z3.Select(o.arr, bv(0, 64))
                self.store(st, TPtr(TInt(8)), Ptr(o, bv(0, 64)), outs[oi])
                # the bytes object itself is L bytes; the NUL after it is readable
                q = Ptr(o, bv(0, 64))
                o.user_len = L
                self.store(st, TInt(64), L, outs[oi + 1])
                oi += 2
            else:
                bits = {"n": 64, "K": 64, "L": 64, "k": 64, "l": 64, "I": 32, "i": 32, "H": 16, "h": 16, "B": 8, "b": 8}[code]
                v = self.new("arg", bits)
                self.inputs["arg%d_%s%s" % (ai[0], code, ":signed" if code in "nilhb" else "")] = v
                self.store(st, TInt(bits), v, outs[oi])
                oi += 1
            ai[0] += 1
        return bv(1, 32)
