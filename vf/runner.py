"""Obligation runner: parallel exploration, replay, known findings, evidence."""
from __future__ import annotations

import fnmatch
import importlib
import json
import multiprocessing as mp
import os
import sys
import time
import traceback

from . import symx

VERIF = os.path.dirname(os.path.dirname(os.path.abspath(__file__)))
REPO = os.environ.get("VERIF_REPO", "/repo")


class Ob:
    """one proof obligation"""

    def __init__(self, id, fn, shims=None, encoded=(), bounds="", outside="", budget_s=300, max_paths=400000, max_decisions=600, kind="symx", replay_fn=None, stubs=(), setup=None, env=None, prepare=None):
        self.id = id
        self.fn = fn
        self.shims = shims  # callable -> {module: [names]}
        self.encoded = list(encoded)
        self.bounds = bounds
        self.outside = outside
        self.budget_s = budget_s
        self.max_paths = max_paths
        self.max_decisions = max_decisions
        self.kind = kind  # symx | custom
        self.replay_fn = replay_fn  # custom: callable(inputs) -> dict(reproduced=..)
        self.stubs = list(stubs)
        self.setup = setup  # optional context-manager factory wrapping exploration (extra stubs)
        self.prepare = prepare  # callable run once before shims are installed (and before replay): builds concrete templates
        self.env = env  # context-manager factory for environment stubs that apply to exploration AND replay (ideal QPACK, ideal crypto)


_OBS = []
_SEED = 0
# per-obligation wall-clock cap (seconds): keeps a whole tier within a predictable total; an obligation
# that does not finish within it is reported as inconclusive, never as discharged
_CAP = int(os.environ.get("VERIF_OBLIGATION_CAP", "600"))


def _run_one(idx):
    ob = _OBS[idx]
    t0 = time.time()
    try:
        import resource

        lim = int(os.environ.get("VERIF_MEM_GB", "6")) << 30
        resource.setrlimit(resource.RLIMIT_AS, (lim, lim))
    except Exception:
        pass
    try:
        if ob.kind == "custom":
            r = ob.fn()
            r.setdefault("paths", r.get("queries", 1))
            r.setdefault("paths_with_checks", r["paths"])
            r.setdefault("violations", [])
            r.setdefault("inconclusive", [])
            r.setdefault("samples", [])
            r.setdefault("solver_time", 0.0)
            r.setdefault("queries", 0)
            r.setdefault("exhaustive", True)
            r.setdefault("format_sites", 0)
            r.setdefault("infeasible", 0)
            r["status"] = "violation" if r["violations"] else ("inconclusive" if r["inconclusive"] else "holds")
        else:
            if ob.prepare is not None:
                ob.prepare()
            spec = ob.shims() if ob.shims else {}
            cm = symx.shimmed(spec)
            import contextlib

            with cm, (ob.setup() if ob.setup is not None else contextlib.nullcontext()), (ob.env() if ob.env is not None else contextlib.nullcontext()):
                res = symx.explore(ob.fn, max_paths=ob.max_paths, max_seconds=min(ob.budget_s, _CAP), stop_on_violation=False, seed=_SEED, max_decisions=ob.max_decisions)
            r = res.as_dict()
            r["shims"] = {m.__name__: sorted((x if isinstance(x, str) else x[0]) for x in n) for m, n in spec.items()}
    except BaseException as exc:  # machinery failure
        r = {"status": "error", "error": "%s: %s" % (type(exc).__name__, exc), "tb": traceback.format_exc(), "paths": 0, "paths_with_checks": 0, "violations": [], "inconclusive": [], "samples": [], "solver_time": 0.0, "queries": 0, "exhaustive": False, "format_sites": 0, "infeasible": 0}
    r["id"] = ob.id
    r["wall"] = time.time() - t0
    return idx, r


def _replay_one(args):
    idx, inputs = args
    ob = _OBS[idx]
    try:
        if ob.kind == "custom":
            if ob.replay_fn is None:
                return {"reproduced": False, "why": "no replay available"}
            return ob.replay_fn(inputs)
        if ob.replay_fn is not None:
            return ob.replay_fn(inputs)
        symx.E.mode = "replay"
        if ob.env is not None:
            with ob.env():
                return symx.replay(ob.fn, inputs or {})
        return symx.replay(ob.fn, inputs or {})
    except BaseException as exc:
        return {"reproduced": False, "why": "replay crashed: %s: %s" % (type(exc).__name__, exc), "tb": traceback.format_exc()}


def load_known():
    p = os.path.join(VERIF, "known_findings.json")
    if not os.path.exists(p):
        return []
    return json.load(open(p))


def match_known(known, pid, obid, v):
    text = "%s | %s | %s" % (v.get("msg", ""), v.get("site", ""), v.get("exc", ""))
    for k in known:
        if k.get("status") != "known" or k.get("property") != pid:
            continue
        if not fnmatch.fnmatch(obid, k.get("obligation", "*")):
            continue
        if all(s in text for s in k.get("match", [])):
            return k
    return None


def run_property(pid, tier, obligations, level="model_checking", extra_assumptions=(), rule=None, jobs=None):
    global _OBS, _SEED
    t0 = time.time()
    _SEED = int(os.environ.get("VERIF_SEED", "0") or 0)
    _OBS = obligations
    jobs = jobs or min(int(os.environ.get("VERIF_JOBS", "16")), max(1, len(obligations)))
    ctx = mp.get_context("fork")
    results = [None] * len(obligations)
    # longest budgets first
    order = sorted(range(len(obligations)), key=lambda i: -obligations[i].budget_s)
    with ctx.Pool(processes=jobs, maxtasksperchild=1) as pool:
        for idx, r in pool.imap_unordered(_run_one, order):
            results[idx] = r
            print("  [%s] %-34s %-12s paths=%d checked=%d queries=%d solver=%.1fs wall=%.1fs%s" % (pid, r["id"], r["status"], r["paths"], r["paths_with_checks"], r["queries"], r["solver_time"], r["wall"], (" inconclusive: " + "; ".join(sorted(set(r["inconclusive"]))[:2])) if r["inconclusive"] else ""), flush=True)
            if r["status"] == "error":
                print(r.get("tb", ""), flush=True)
        # replay candidate violations in clean (unshimmed) workers
        todo = []
        for idx, r in enumerate(results):
            for vi, v in enumerate(r["violations"]):
                todo.append((idx, vi))
        replays = pool.map(_replay_one, [(idx, results[idx]["violations"][vi].get("inputs")) for idx, vi in todo]) if todo else []
    known = load_known()
    new_viol, known_hits, unrepro = [], [], []
    import shutil

    if not os.environ.get("VERIF_KEEP_REPLAYS"):
        shutil.rmtree(os.path.join(VERIF, "replays", pid), ignore_errors=True)
    os.makedirs(os.path.join(VERIF, "replays", pid), exist_ok=True)
    for (idx, vi), rp in zip(todo, replays):
        ob = obligations[idx]
        v = results[idx]["violations"][vi]
        v["replay"] = rp
        if not rp.get("reproduced"):
            if v.get("approx"):
                # found on a path that used an over-approximation (relaxed division / sign-only real
                # arithmetic) and not confirmed by the concrete run: a spurious candidate, inconclusive
                results[idx]["inconclusive"].append("candidate from an over-approximated path did not replay: %s" % v["msg"])
                if results[idx]["status"] == "violation" and all((not x.get("replay", {}).get("reproduced", True)) and x.get("approx") for x in results[idx]["violations"] if "replay" in x):
                    results[idx]["status"] = "inconclusive"
                continue
            unrepro.append((ob.id, v))
            continue
        # message from the concrete run is authoritative
        vv = dict(v)
        if rp.get("msg"):
            vv["msg"] = v["msg"] + " || replay: " + rp["msg"]
        if rp.get("exc"):
            vv["exc"] = (v.get("exc") or "") + " " + rp["exc"]
        k = match_known(known, pid, ob.id, vv)
        if k is not None:
            known_hits.append((ob.id, v, k))
            continue
        path = os.path.join(VERIF, "replays", pid, "%s.%d.json" % (ob.id, vi))
        json.dump({"property": pid, "obligation": ob.id, "tier": tier, "msg": v["msg"], "site": v.get("site"), "exc": v.get("exc"), "inputs": v.get("inputs"), "replay_result": rp, "how": "./check %s --replay %s" % (pid, path)}, open(path, "w"), indent=1, default=str)
        new_viol.append((ob.id, v, path))

    # vacuity guard (reachability twin): every symx obligation must reach a property check
    vacuous = [r["id"] for r in results if r["status"] in ("holds",) and r["paths_with_checks"] == 0]
    errors = [r for r in results if r["status"] == "error"]

    seen_known = set()
    for obid, v, k in known_hits:
        key = k.get("id") or json.dumps(k, sort_keys=True)
        if key in seen_known:
            continue
        seen_known.add(key)
        print("KNOWN-FINDING: property=%s %s (obligation %s: %s)" % (pid, k.get("what", ""), obid, v["msg"]))
    for obid, v, path in new_viol:
        print("VIOLATION property=%s replay=%s" % (pid, path))
        print("   obligation %s: %s [%s] %s" % (obid, v["msg"], v.get("site"), v.get("exc", "")))
    for obid, v in unrepro:
        print("UNREPRODUCED-COUNTEREXAMPLE property=%s obligation=%s: %s (%s)" % (pid, obid, v["msg"], v["replay"].get("why")))
    for obid in vacuous:
        print("VACUOUS obligation %s: no path reached a property assertion" % obid)

    # evidence
    n_ob = len(results)
    discharged = sum(1 for r in results if r["status"] == "holds" and r["id"] not in vacuous)
    inconc = [(r["id"], sorted(set(r["inconclusive"]))[:3]) for r in results if r["status"] == "inconclusive"]
    samples = []
    for r, ob in zip(results, obligations):
        for s in r["samples"][:1]:
            samples.append({"obligation": ob.id, "bounds": ob.bounds, **(s if isinstance(s, dict) else {"sample": s})})
    samples = samples[:12] or [{"note": "no sample recorded"}]
    encoded = sorted({f for ob in obligations for f in ob.encoded})
    ev = {
        "property_id": pid,
        "tier": tier,
        "seed": _SEED,
        "level": level,
        "coverage": {
            "evaluations": sum(r["paths"] for r in results),
            "distinct_nontrivial": sum(r["paths_with_checks"] for r in results),
            "rule": rule or "evaluations = symbolic paths explored by symx (each is one feasible branch sequence through the real code, closed by z3 queries, and stands for every concrete input taking those branches) plus closed-form/IR queries; distinct_nontrivial = paths whose path condition is satisfiable and on which at least one property assertion was discharged (DFS never revisits a path, so they are distinct)",
            "samples": samples,
            "obligations": n_ob,
            "discharged": discharged,
            "inconclusive": len(inconc),
            "inconclusive_detail": inconc,
            "known_findings_hit": sorted(seen_known),
            "solver_queries": sum(r["queries"] for r in results),
            "solver_time_s": round(sum(r["solver_time"] for r in results), 2),
            "functions_encoded": encoded,
            "bounds": {ob.id: ob.bounds for ob in obligations},
            "outside_claim": sorted({ob.outside for ob in obligations if ob.outside}),
            "per_obligation": [{"id": r["id"], "status": r["status"], "paths": r["paths"], "paths_reaching_assertion": r["paths_with_checks"], "infeasible_paths": r.get("infeasible", 0), "queries": r["queries"], "solver_time_s": round(r["solver_time"], 2), "wall_s": round(r["wall"], 2), "exhaustive_within_bounds": bool(r.get("exhaustive"))} for r in results],
            "shims": sorted({"%s.%s" % (m, n) for r in results for m, ns in (r.get("shims") or {}).items() for n in ns}),
            "stubs": sorted({s for ob in obligations for s in ob.stubs}),
            "format_sites": sum(r.get("format_sites", 0) for r in results),
            "reachability_witness_paths": sum(r["paths_with_checks"] for r in results),
            "vacuous_obligations": vacuous,
            "exhaustive": all(bool(r.get("exhaustive")) for r in results),
        },
        "assumptions": list(extra_assumptions) + ["z3 %s is sound; symx proxies model CPython int/bytes semantics (validated by vf.selftest)" % symx.z3.get_version_string(), "bounds listed under coverage.bounds; nothing is claimed outside them"],
        "wall_s": round(time.time() - t0, 2),
        "violations": len(new_viol),
    }
    os.makedirs(os.path.join(VERIF, "evidence"), exist_ok=True)
    with open(os.path.join(VERIF, "evidence", pid + ".json"), "w") as f:
        json.dump(ev, f, indent=1, default=str)
    print("%s %s: obligations=%d discharged=%d inconclusive=%d known=%d new_violations=%d unreproduced=%d paths=%d queries=%d wall=%.1fs" % (pid, tier, n_ob, discharged, len(inconc), len(seen_known), len(new_viol), len(unrepro), ev["coverage"]["evaluations"], ev["coverage"]["solver_queries"], ev["wall_s"]))
    if new_viol:
        return 1
    if unrepro or vacuous or errors:
        return 2
    return 0


def main(argv=None):
    import argparse

    ap = argparse.ArgumentParser()
    ap.add_argument("pid")
    ap.add_argument("--tier", default=os.environ.get("VERIF_TIER", "quick"))
    ap.add_argument("--replay")
    ap.add_argument("--only", help="glob on obligation ids")
    a = ap.parse_args(argv)
    sys.path.insert(0, os.path.join(REPO, "src"))
    mod = importlib.import_module("vf.props.%s" % a.pid.lower())
    if a.replay:
        d = json.load(open(a.replay))
        obs = mod.obligations(d.get("tier", "thorough"))
        global _OBS
        _OBS = obs
        for i, ob in enumerate(obs):
            if ob.id == d["obligation"]:
                rp = _replay_one((i, d.get("inputs")))
                print(json.dumps(rp, indent=1, default=str))
                return 1 if rp.get("reproduced") else 0
        print("obligation not found")
        return 2
    obs = mod.obligations(a.tier)
    if a.tier == "thorough":
        # the thorough tier contains the quick tier: a deeper variant that does not finish within its
        # budget must not leave the property with less coverage than the every-change check
        have = {o.id: o for o in obs}
        for o in mod.obligations("quick"):
            if o.id in have:
                if have[o.id].bounds == o.bounds:
                    continue  # same obligation in both tiers
                o.id = o.id + "@quick"
            obs.append(o)
    if a.only:
        obs = [o for o in obs if fnmatch.fnmatch(o.id, a.only)]
    return run_property(a.pid, a.tier, obs, extra_assumptions=getattr(mod, "ASSUMPTIONS", ()))


if __name__ == "__main__":
    sys.exit(main())
