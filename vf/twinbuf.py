"""Python twin of aioquic._buffer.Buffer working on symbolic bytes and positions.

Not trusted: vf/props/c17.py (obligation C17.twin.*) proves each method equivalent
to the C function compiled from the current _buffer.c (ll2smt), and vf/selftest.py
pushes the repository's own buffer tests through both implementations.
"""
from __future__ import annotations

import z3

from . import symx as sx
from .symx import SymBytes, SymInt, _z

_isinstance = sx._isinstance
_int = sx._int
_bytes = sx._bytes
_bytearray = sx._bytearray
_len = sx._len


def _errors():
    from aioquic._buffer import BufferReadError, BufferWriteError

    return BufferReadError, BufferWriteError


def _is_intlike(v):
    return _isinstance(v, (SymInt, _int)) and not False


def _select(cells, base, i):
    """content at symbolic offset i: explicit cells layered over the base function.  Runs of equal
    concrete cells (padding) are folded into range tests to keep the term small."""
    r = base(i)
    if not cells:
        return r
    keys = sorted(cells)
    k = 0
    while k < len(keys):
        v = cells[keys[k]]
        j = k
        if _isinstance(v, _int):
            while j + 1 < len(keys) and keys[j + 1] == keys[j] + 1 and _isinstance(cells[keys[j + 1]], _int) and cells[keys[j + 1]] == v:
                j += 1
        if j > k:
            r = z3.If(z3.And(i >= keys[k], i <= keys[j]), z3.IntVal(v), r)
        else:
            r = z3.If(i == keys[k], sx._zi(v), r)
        k = j + 1
    return r


class TwinBuffer:
    """same API as aioquic._buffer.Buffer"""

    # a fence lets harnesses assert "never reads past the declared end of an enclosing field"
    def __init__(self, capacity=0, data=None):
        self._cells = {}  # concrete offset -> byte term, layered over self._base
        if data is not None:
            d = SymBytes.of(data)
            self._cap = d.length
            self._base = d.get
            items = d.materialize()
            if items is not None:
                self._cap = _len(items)
                self._cells = dict(enumerate(items))
        else:
            if not _is_intlike(capacity):
                raise TypeError("capacity must be an integer")
            self._cap = capacity
            self._base = lambda i: z3.IntVal(0)
        self._pos = 0
        self.max_read = 0  # highest offset (exclusive) ever read; for fence assertions

    # -- properties ---------------------------------------------------------
    @property
    def capacity(self):
        return self._cap

    def _get(self, i):
        """byte term at offset i (z3 term or int)"""
        if not _isinstance(i, _int):
            i = z3.simplify(i)
            if z3.is_int_value(i):
                i = i.as_long()
        if _isinstance(i, _int):
            c = self._cells.get(i)
            return sx._zi(c) if c is not None else self._base(z3.IntVal(i))
        return _select(self._cells, self._base, i)

    def _flush(self):
        """fold the explicit cells into the content function (before a write at a symbolic offset)"""
        cells, base = dict(self._cells), self._base
        self._cells = {}
        self._base = lambda i: _select(cells, base, i)

    def _view(self, start, length):
        """bytes [start, start+length) as SymBytes"""
        if _isinstance(start, SymInt):
            v = z3.simplify(start.e)
            start = v.as_long() if z3.is_int_value(v) else start
        if _isinstance(length, SymInt):
            v = z3.simplify(length.e)
            length = v.as_long() if z3.is_int_value(v) else length
        if sx.UNIQUE_VIEWS:
            if _isinstance(start, SymInt):
                u = sx.unique_value(start)
                start = start if u is None else u
            if _isinstance(length, SymInt):
                u = sx.unique_value(length)
                length = length if u is None else u
        if _isinstance(start, _int) and _isinstance(length, _int) and length <= 70000:
            cells = self._cells
            return SymBytes.from_items([cells[start + k] if (start + k) in cells else sx._norm_item(z3.simplify(self._base(z3.IntVal(start + k)))) for k in range(length)])
        cells, base = dict(self._cells), self._base  # snapshot: later writes must not show through
        sz = _z(start)

        def get(i):
            j = z3.simplify(i + sz)
            if z3.is_int_value(j):
                c = cells.get(j.as_long())
                return sx._zi(c) if c is not None else base(j)
            return _select(cells, base, j)

        return SymBytes(length, get)

    @property
    def data(self):
        return self._view(0, self._pos)

    # -- helpers ------------------------------------------------------------
    def _rd_err(self, msg="Read out of bounds"):
        return _errors()[0](msg)

    def _wr_err(self):
        return _errors()[1]("Write out of bounds")

    def _need_read(self, n):
        if n < 0 or self._pos + n > self._cap:
            raise self._rd_err()

    def _need_write(self, n):
        if self._pos + n > self._cap:
            raise self._wr_err()

    def _byte(self, k):
        p = self._pos + k
        if _isinstance(p, _int):
            c = self._cells.get(p)
            if _isinstance(c, _int):
                return c
        v = z3.simplify(self._get(p if _isinstance(p, _int) else p.e))
        if z3.is_int_value(v):
            return v.as_long()
        sx.E.add_fact(z3.And(v >= 0, v <= 255))
        return SymInt(v)

    def _note_read(self, upto):
        # kept symbolic-free when possible; only used by fence checks
        self.max_read = sx.sym_max(self.max_read, upto) if sx.is_sym(upto) or sx.is_sym(self.max_read) else max(self.max_read, upto)

    def _pull(self, n):
        self._need_read(n)
        v = 0
        for k in range(n):
            v = v * 256 + self._byte(k)
        self._pos = self._pos + n
        return v

    def _push(self, v, n):
        if not _is_intlike(v):
            if _isinstance(v, sx.SymBool):
                v = sx.sym_int(v)
            else:
                raise TypeError("an integer is required")
        self._need_write(n)
        vals = sx.decompose(_z(v), n)  # the low n bytes: PyArg 'B','H','I','K' do no overflow checking
        self._write(vals)

    def _write(self, vals):
        n = _len(vals)
        pos = self._pos
        if _isinstance(pos, SymInt):
            pv = z3.simplify(pos.e)
            pos = pv.as_long() if z3.is_int_value(pv) else pos
        if _isinstance(pos, _int):
            for k in range(n):
                self._cells[pos + k] = vals[k]
        else:
            if self._cells:
                self._flush()
            pz = _z(pos)
            g = self._base
            vv = list(vals)
            vv = [sx._zi(x) for x in vv]
            self._base = lambda i: z3.If(z3.And(i >= pz, i < pz + n), sx._sel_chain(i - pz, vv), g(i))
        self._pos = self._pos + n

    # -- API ------------------------------------------------------------------
    def eof(self):
        return bool(self._pos == self._cap)

    def tell(self):
        return self._pos

    def seek(self, pos):
        if not _is_intlike(pos):
            raise TypeError("an integer is required")
        if pos < 0 or pos > self._cap:
            raise self._rd_err("Seek out of bounds")
        self._pos = pos

    def data_slice(self, start, stop):
        if start < 0 or start > self._cap or stop < 0 or stop > self._cap or stop < start:
            raise self._rd_err()
        return self._view(start, stop - start)

    def pull_bytes(self, length):
        if not _is_intlike(length):
            raise TypeError("an integer is required")
        if sx.CONCRETE_PULLS and _isinstance(length, SymInt) and sx.CONCRETE_PULLS(length.e):
            length = sx.concretize(length)  # one path per feasible length keeps later offsets concrete
        self._need_read(length)
        r = self._view(self._pos, length)
        self._pos = self._pos + length
        return r

    def pull_uint8(self):
        return self._pull(1)

    def pull_uint16(self):
        return self._pull(2)

    def pull_uint32(self):
        return self._pull(4)

    def pull_uint64(self):
        return self._pull(8)

    def pull_uint_var(self):
        self._need_read(1)
        first = self._byte(0)
        k = first // 64
        if k == 0:
            n = 1
        elif k == 1:
            n = 2
        elif k == 2:
            n = 4
        else:
            n = 8
        self._need_read(n)
        v = first % 64
        for j in range(1, n):
            v = v * 256 + self._byte(j)
        self._pos = self._pos + n
        return v

    def push_bytes(self, data):
        if not _isinstance(data, (SymBytes, _bytes, _bytearray, memoryview)):
            raise TypeError("a bytes-like object is required")
        d = SymBytes.of(data)
        self._need_write(d.length)
        items = d.materialize()
        if items is not None:
            self._write(items)
            return
        if self._cells:
            self._flush()
        g, gd = self._base, d.get
        pz, lz = _z(self._pos), _z(d.length)
        self._base = lambda i: z3.If(z3.And(i >= pz, i < pz + lz), gd(i - pz), g(i))
        self._pos = self._pos + d.length

    def push_uint8(self, v):
        self._push(v, 1)

    def push_uint16(self, v):
        self._push(v, 2)

    def push_uint32(self, v):
        self._push(v, 4)

    def push_uint64(self, v):
        self._push(v, 8)

    def push_uint_var(self, v):
        if not _is_intlike(v):
            raise TypeError("an integer is required")
        if _isinstance(v, SymInt):
            # 'K': masked to 64 bits without overflow check; skip the reduction when it is provably the identity
            v64 = v if sx.E.prove(z3.And(v.e >= 0, v.e < (1 << 64))) is None else v % (1 << 64)
        else:
            v64 = _int(v) % (1 << 64)
        if v64 <= 0x3F:
            self._push(v64, 1)
        elif v64 <= 0x3FFF:
            self._push(v64 + 0x4000, 2)
        elif v64 <= 0x3FFFFFFF:
            self._push(v64 + 0x80000000, 4)
        elif v64 <= 0x3FFFFFFFFFFFFFFF:
            self._push(v64 + 0xC000000000000000, 8)
        else:
            raise ValueError("Integer is too big for a variable-length integer")
