"""Python twin of aioquic._buffer.Buffer working on symbolic bytes and positions.

Not trusted: vf/props/c17.py (obligation C17.twin.*) proves each method equivalent
to the C function compiled from the current _buffer.c (ll2smt), and vf/selftest.py
pushes the repository's own buffer tests through both implementations.
"""
from __future__ import annotations

import z3

from . import symx as sx
from .symx import SymBytes, SymInt, _z

_isinstance = sx._isinstance
_int = sx._int
_bytes = sx._bytes
_bytearray = sx._bytearray
_len = sx._len


def _errors():
    from aioquic._buffer import BufferReadError, BufferWriteError

    return BufferReadError, BufferWriteError


def _is_intlike(v):
    return _isinstance(v, (SymInt, _int)) and not False


class TwinBuffer:
    """same API as aioquic._buffer.Buffer"""

    # a fence lets harnesses assert "never reads past the declared end of an enclosing field"
    def __init__(self, capacity=0, data=None):
        if data is not None:
            d = SymBytes.of(data)
            self._cap = d.length
            self._get = d.get
        else:
            if not _is_intlike(capacity):
                raise TypeError("capacity must be an integer")
            self._cap = capacity
            self._get = lambda i: z3.IntVal(0)
        self._pos = 0
        self.max_read = 0  # highest offset (exclusive) ever read; for fence assertions

    # -- properties ---------------------------------------------------------
    @property
    def capacity(self):
        return self._cap

    @property
    def data(self):
        return SymBytes(self._pos, self._get)

    # -- helpers ------------------------------------------------------------
    def _rd_err(self, msg="Read out of bounds"):
        return _errors()[0](msg)

    def _wr_err(self):
        return _errors()[1]("Write out of bounds")

    def _need_read(self, n):
        if n < 0 or self._pos + n > self._cap:
            raise self._rd_err()

    def _need_write(self, n):
        if self._pos + n > self._cap:
            raise self._wr_err()

    def _byte(self, k):
        v = z3.simplify(self._get(_z(self._pos + k)))
        if z3.is_int_value(v):
            return v.as_long()
        sx.E.add_fact(z3.And(v >= 0, v <= 255))
        return SymInt(v)

    def _note_read(self, upto):
        # kept symbolic-free when possible; only used by fence checks
        self.max_read = sx.sym_max(self.max_read, upto) if sx.is_sym(upto) or sx.is_sym(self.max_read) else max(self.max_read, upto)

    def _pull(self, n):
        self._need_read(n)
        v = 0
        for k in range(n):
            v = v * 256 + self._byte(k)
        self._pos = self._pos + n
        return v

    def _push(self, v, n):
        if not _is_intlike(v):
            if _isinstance(v, sx.SymBool):
                v = sx.sym_int(v)
            else:
                raise TypeError("an integer is required")
        self._need_write(n)
        vz = _z(v) % (1 << (8 * n))  # PyArg 'B','H','I','K': no overflow checking
        vals = [(vz / (1 << (8 * (n - 1 - k)))) % 256 for k in range(n)]
        pz = _z(self._pos)
        g = self._get
        if n == 1:
            self._get = lambda i: z3.If(i == pz, vals[0], g(i))
        else:
            self._get = lambda i: z3.If(z3.And(i >= pz, i < pz + n), sx._sel_chain(i - pz, vals), g(i))
        self._pos = self._pos + n

    # -- API ------------------------------------------------------------------
    def eof(self):
        return bool(self._pos == self._cap)

    def tell(self):
        return self._pos

    def seek(self, pos):
        if not _is_intlike(pos):
            raise TypeError("an integer is required")
        if pos < 0 or pos > self._cap:
            raise self._rd_err("Seek out of bounds")
        self._pos = pos

    def data_slice(self, start, stop):
        if start < 0 or start > self._cap or stop < 0 or stop > self._cap or stop < start:
            raise self._rd_err()
        g = self._get
        sz = _z(start)
        return SymBytes(stop - start, lambda i: g(i + sz))

    def pull_bytes(self, length):
        if not _is_intlike(length):
            raise TypeError("an integer is required")
        self._need_read(length)
        g = self._get
        pz = _z(self._pos)
        n = length
        if _isinstance(n, SymInt):
            v = z3.simplify(n.e)
            if z3.is_int_value(v):
                n = v.as_long()
        r = SymBytes(n, lambda i: g(i + pz))
        self._pos = self._pos + length
        return r

    def pull_uint8(self):
        return self._pull(1)

    def pull_uint16(self):
        return self._pull(2)

    def pull_uint32(self):
        return self._pull(4)

    def pull_uint64(self):
        return self._pull(8)

    def pull_uint_var(self):
        self._need_read(1)
        first = self._byte(0)
        k = first // 64
        if k == 0:
            n = 1
        elif k == 1:
            n = 2
        elif k == 2:
            n = 4
        else:
            n = 8
        self._need_read(n)
        v = first % 64
        for j in range(1, n):
            v = v * 256 + self._byte(j)
        self._pos = self._pos + n
        return v

    def push_bytes(self, data):
        if not _isinstance(data, (SymBytes, _bytes, _bytearray, memoryview)):
            raise TypeError("a bytes-like object is required")
        d = SymBytes.of(data)
        self._need_write(d.length)
        g, gd = self._get, d.get
        pz, lz = _z(self._pos), _z(d.length)
        self._get = lambda i: z3.If(z3.And(i >= pz, i < pz + lz), gd(i - pz), g(i))
        self._pos = self._pos + d.length

    def push_uint8(self, v):
        self._push(v, 1)

    def push_uint16(self, v):
        self._push(v, 2)

    def push_uint32(self, v):
        self._push(v, 4)

    def push_uint64(self, v):
        self._push(v, 8)

    def push_uint_var(self, v):
        if not _is_intlike(v):
            raise TypeError("an integer is required")
        v64 = v % (1 << 64) if _isinstance(v, SymInt) else _int(v) % (1 << 64)  # 'K': masked, no overflow check
        if v64 <= 0x3F:
            self._push(v64, 1)
        elif v64 <= 0x3FFF:
            self._push(v64 + 0x4000, 2)
        elif v64 <= 0x3FFFFFFF:
            self._push(v64 + 0x80000000, 4)
        elif v64 <= 0x3FFFFFFFFFFFFFFF:
            self._push(v64 + 0xC000000000000000, 8)
        else:
            raise ValueError("Integer is too big for a variable-length integer")
