"""Ideal cryptography for symbolic execution of aioquic/tls.py (C03, C11).

The handshake logic of tls.py (Context handlers, dispatch, KeySchedule, negotiate, the message
codecs) is executed unmodified.  Only the primitives underneath it are replaced, and only during
symbolic exploration:

  hashes.Hash, hmac.HMAC, HKDFExpand      -> ideal functions: the output is a string of fresh symbolic
                                             bytes, constrained pairwise by  inputs equal <=> outputs equal
                                             (deterministic and collision free)
  comparison against a locally computed MAC -> true only for the output of another MAC computation over
                                             equal inputs (no forgery by byte manipulation)
  X25519                                   -> ideal commutative key agreement on opaque public strings
  x509.load_der_x509_certificate           -> opaque certificates known to the harness by their encoding;
                                             any other encoding is an untrusted certificate whose key
                                             nobody honest holds
  private_key.sign / public_key.verify     -> verification succeeds only for a string produced by sign()
                                             under the same key over equal data with the same parameters
  verify_certificate                       -> validity relation of the harness' certificates (trusted,
                                             not expired, name listed); X.509 path validation itself is
                                             outside the claim

In replay mode nothing of this is installed: the same harness runs against the real primitives with
real keys and certificates (RealProvider), which is how counterexamples are confirmed.
"""
from __future__ import annotations

import contextlib
import datetime
import hashlib

import z3

from . import symx as sx
from .symx import SymBytes


# ------------------------------------------------------------------ ideal function registry (per path)
class World:
    def __init__(self):
        self.entries = {}  # kind -> [(inputs, out)]
        self.memo = {}
        self.n = 0
        self.certs = []  # IdealCert known to the harness
        self.keys = 0
        self.verify_calls = []  # (certificate, server_name) passed to verify_certificate


W = World()


def reset():
    global W
    W = World()


def _concrete_key(inputs):
    key = []
    for x in inputs:
        if isinstance(x, (int, str)) and not isinstance(x, bool):
            key.append(x)
            continue
        if isinstance(x, (bytes, bytearray)):
            key.append(bytes(x))
            continue
        if isinstance(x, SymBytes):
            it = x.materialize()
            if it is not None and all(isinstance(v, int) for v in it):
                key.append(bytes(it))
                continue
        return None
    return tuple(key)


def _bool_const(c):
    """(True|False|None, term): the term is returned as built -- simplify()'s argument order is not stable
    across re-executions and would upset the engine's decision fingerprints"""
    s = z3.simplify(c)
    if z3.is_true(s):
        return True, c
    if z3.is_false(s):
        return False, c
    return None, c


def inputs_eq(a, b):
    """z3 Bool: the two input tuples are equal"""
    if len(a) != len(b):
        return z3.BoolVal(False)
    conj = []
    for x, y in zip(a, b):
        if isinstance(x, (int, str)) and isinstance(y, (int, str)):
            if x != y:
                return z3.BoolVal(False)
            continue
        if isinstance(x, sx.SymInt) or isinstance(y, sx.SymInt):
            conj.append(sx._z(x) == sx._z(y))
            continue
        t = SymBytes.of(x).eq_term(SymBytes.of(y))
        k, t = _bool_const(t)
        if k is False:
            return z3.BoolVal(False)
        if k is None:
            conj.append(t)
    return z3.And(*conj) if conj else z3.BoolVal(True)


def _dh_eq(a, b):
    return z3.Or(inputs_eq(a, b), inputs_eq(a, [b[1], b[0]]))


_FUNCS = {}


def _funcs(kind, outlen):
    k = (kind, outlen)
    if k not in _FUNCS:
        I = z3.IntSort()
        _FUNCS[k] = (z3.Function("%s%d.byte" % (kind, outlen), I, I, I), z3.Function("%s%d.inv" % (kind, outlen), *([I] * outlen + [I])))
    return _FUNCS[k]


def _pseudo(tag, key, outlen):
    out = b""
    k = 0
    while len(out) < outlen:
        out += hashlib.sha512(repr((tag, key, k)).encode()).digest()
        k += 1
    return out[:outlen]


def _out_eq(a, b):
    if a._token is not None and b._token is not None:
        return a._token == b._token
    return a.eq_term(b)


def ideal(kind, inputs, outlen, eq=inputs_eq, memo=True):
    """output of an ideal deterministic function.
    Concrete inputs: a concrete pseudo-random string determined by them (so honest messages stay concrete).
    Symbolic inputs: the application gets a token t; its output bytes are byte(t, k) and
    t = inv(byte(t,0), .., byte(t,n-1)), so tokens are equal exactly when the output strings are.
    In both cases the output equals an earlier output of the same kind exactly when the inputs are equal."""
    key = _concrete_key(inputs)
    if key is not None and kind == "dh":
        key = tuple(sorted(key))
    if memo and key is not None and (kind, key) in W.memo:
        return W.memo[(kind, key)]
    W.n += 1
    lst = W.entries.setdefault(kind, [])
    if key is not None:
        out = SymBytes.of(_pseudo(kind, key, outlen))
        out._token = None
    else:
        F, Inv = _funcs(kind, outlen)
        t = z3.Int("%s#%d" % (kind, W.n))
        items = [F(t, z3.IntVal(k)) for k in range(outlen)]
        sx.E.add_fact(z3.And(*[z3.And(b >= 0, b <= 255) for b in items]))
        sx.E.add_fact(t == Inv(*items))
        out = SymBytes.from_items(items)
        out._token = t
    for inp_j, out_j in lst:
        if len(out_j.items) != outlen or (key is not None and out_j._token is None):
            continue
        k, c = _bool_const(eq(inputs, inp_j))
        te = _out_eq(out, out_j)
        if k is True:
            sx.E.add_fact(te)
        elif k is False:
            sx.E.add_fact(z3.Not(te))
        else:
            sx.E.add_fact(c == te)
    lst.append((list(inputs), out))
    if memo and key is not None:
        W.memo[(kind, key)] = out
    return out


class MacBytes(SymBytes):
    """a locally computed MAC: another string equals it only if that string is itself the output of a
    MAC computation over equal inputs"""

    def __init__(self, out, inputs):
        SymBytes.__init__(self, out.length, out.get, out.items)
        self._out = out
        self._inputs = inputs

    def _eq(self, other):
        if not isinstance(other, (SymBytes, bytes, bytearray)):
            return False
        o = SymBytes.of(other)
        alts = []
        for inp_j, out_j in W.entries.get("hmac", []):
            if out_j is self._out:
                continue
            k, c = _bool_const(z3.And(o.eq_term(out_j), inputs_eq(inp_j, self._inputs)))
            if k is True:
                return True
            if k is None:
                alts.append(c)
        if not alts:
            return False
        return bool(sx.SymBool(z3.Or(*alts)))

    def __eq__(self, other):
        return self._eq(other)

    def __ne__(self, other):
        return not self._eq(other)

    __hash__ = None


# ------------------------------------------------------------------ primitive stubs
class IdealHash:
    def __init__(self, algorithm, data=None):
        self.algorithm = algorithm
        self.data = data if data is not None else SymBytes.of(b"")

    def update(self, data):
        if not isinstance(data, (SymBytes, bytes, bytearray, memoryview)):
            raise TypeError("data must be bytes-like")
        d = SymBytes.of(data)
        if isinstance(d.length, sx.SymInt):
            u = sx.unique_value(d.length)
            if u is not None:
                d = SymBytes(u, d.get)
        d.materialize()
        self.data = self.data + d

    def copy(self):
        return IdealHash(self.algorithm, self.data)

    def finalize(self):
        return ideal("hash", [self.algorithm.name, self.data], self.algorithm.digest_size)


class IdealHMAC:
    def __init__(self, key, algorithm=None, backend=None):
        self.key = key
        self.algorithm = algorithm
        self.data = SymBytes.of(b"")

    def update(self, data):
        self.data = self.data + SymBytes.of(data)

    def finalize(self):
        inputs = [self.algorithm.name, SymBytes.of(self.key), self.data]
        out = ideal("hmac", inputs, self.algorithm.digest_size, memo=False)
        return MacBytes(out, inputs)


class IdealHKDFExpand:
    def __init__(self, algorithm, length, info, backend=None):
        self.algorithm, self.length, self.info = algorithm, length, info

    def derive(self, secret):
        return ideal("expand", [self.algorithm.name, self.length, SymBytes.of(self.info), SymBytes.of(secret)], self.length)


class _Proxy:
    def __init__(self, real, **over):
        self.__dict__["_real"] = real
        self.__dict__.update(over)

    def __getattr__(self, n):
        return getattr(self._real, n)


_DH_COUNTER = [0]


class IdealDHPublic:
    def __init__(self, data):
        self.data = data

    @classmethod
    def from_public_bytes(cls, data):
        if sx.sym_len(data) != 32:
            raise ValueError("An X25519 public key is 32 bytes long")
        return cls(data)

    def public_bytes(self, encoding=None, format=None):
        return self.data


class IdealDHPrivate:
    def __init__(self, pub):
        self.pub = pub

    @classmethod
    def generate(cls):
        _DH_COUNTER[0] += 1
        return cls(hashlib.sha256(b"dh%d" % _DH_COUNTER[0]).digest())

    def public_key(self):
        return IdealDHPublic(self.pub)

    def exchange(self, peer):
        return ideal("dh", [SymBytes.of(self.pub), SymBytes.of(peer.data)], 32, eq=_dh_eq)


def _params_key(params):
    out = []
    for p in params:
        out.append(type(p).__name__)
        for attr in ("algorithm", "_algorithm", "_mgf"):
            a = getattr(p, attr, None)
            if a is not None:
                out.append(getattr(a, "name", type(a).__name__))
        if hasattr(p, "name"):
            out.append(p.name)
    return "/".join(out)


class IdealPublicKey:
    def __init__(self, keyid):
        self.keyid = keyid

    def verify(self, signature, data, *params):
        from cryptography.exceptions import InvalidSignature

        sig = SymBytes.of(signature)
        alts = []
        pk = _params_key(params)
        for inp_j, out_j in W.entries.get("sig", []):
            if inp_j[0] != self.keyid or inp_j[1] != pk:
                continue
            k, c = _bool_const(z3.And(sig.eq_term(out_j), SymBytes.of(data).eq_term(inp_j[2])))
            if k is True:
                return
            if k is None:
                alts.append(c)
        if alts and bool(sx.SymBool(z3.Or(*alts))):
            return
        raise InvalidSignature()


class _CurveP256:
    name = "secp256r1"
    key_size = 256


class IdealPrivateKey:
    """registered as a virtual EllipticCurvePrivateKey on secp256r1"""

    def __init__(self, keyid=None):
        if keyid is None:
            W.keys += 1
            keyid = W.keys
        self.keyid = keyid
        from cryptography.hazmat.primitives.asymmetric import ec

        self.curve = ec.SECP256R1()

    def public_key(self):
        return IdealPublicKey(self.keyid)

    def sign(self, data, *params):
        W.n += 1
        pk = _params_key(params)
        key = _concrete_key([data])
        if key is not None:
            out = SymBytes.of(_pseudo("sig", (self.keyid, pk, key), 64))
        else:
            items = [z3.Int("sig#%d.%d" % (W.n, k)) for k in range(64)]
            sx.E.add_fact(z3.And(*[z3.And(b >= 0, b <= 255) for b in items]))
            out = SymBytes.from_items(items)
        W.entries.setdefault("sig", []).append(([self.keyid, pk, SymBytes.of(data)], out))
        return out


class IdealCert:
    def __init__(self, der, keyid, names=(), trusted=True, expired=False):
        self.der, self.keyid, self.names, self.trusted, self.expired = der, keyid, tuple(names), trusted, expired

    def public_bytes(self, encoding=None):
        return self.der

    def public_key(self):
        return IdealPublicKey(self.keyid)


def ideal_load_der(data):
    d = SymBytes.of(data)
    for c in W.certs:
        k, t = _bool_const(d.eq_term(c.der))
        if k is True:
            return c
        if k is None and bool(sx.SymBool(t)):
            return c
    W.keys += 1
    return IdealCert(data, -W.keys, names=(), trusted=False)  # a key no honest party holds


def _ideal_verify_certificate(tls):
    def verify_certificate(certificate, chain=[], server_name=None, cadata=None, cafile=None, capath=None):
        W.verify_calls.append((certificate, server_name))
        if certificate.expired:
            raise tls.AlertCertificateExpired("Certificate is no longer valid")
        if server_name is not None and server_name not in certificate.names:
            raise tls.AlertBadCertificate("hostname mismatch")
        if not certificate.trusted:
            raise tls.AlertBadCertificate("unable to get local issuer certificate")

    return verify_certificate


def _harness_controlled(e):
    """the term depends on harness inputs only (the altered position/value), not on ideal-function outputs"""
    stack, seen = [e], set()
    while stack:
        t = stack.pop()
        i = t.get_id()
        if i in seen:
            continue
        seen.add(i)
        if z3.is_app(t) and t.decl().kind() == z3.Z3_OP_UNINTERPRETED and t.num_args() > 0:
            return False
        if z3.is_const(t) and t.decl().kind() == z3.Z3_OP_UNINTERPRETED and "#" in t.decl().name():
            return False
        stack.extend(t.children())
    return True


_URANDOM = [0]


def _urandom(n):
    _URANDOM[0] += 1
    out = b""
    k = 0
    while len(out) < n:
        out += hashlib.sha256(b"rnd%d.%d" % (_URANDOM[0], k)).digest()
        k += 1
    return out[:n]


@contextlib.contextmanager
def ideal_crypto():
    """install the ideal primitives into aioquic.tls (exploration only)"""
    import aioquic.tls as tls
    from cryptography.hazmat.primitives.asymmetric import ec

    ec.EllipticCurvePrivateKey.register(IdealPrivateKey)
    saved = {n: tls.__dict__[n] for n in ("hashes", "hmac", "HKDFExpand", "x25519", "x509", "verify_certificate", "os", "utcnow")}
    tls.hashes = _Proxy(saved["hashes"], Hash=IdealHash)
    tls.hmac = _Proxy(saved["hmac"], HMAC=IdealHMAC)
    tls.HKDFExpand = IdealHKDFExpand
    tls.x25519 = _Proxy(saved["x25519"], X25519PrivateKey=IdealDHPrivate, X25519PublicKey=IdealDHPublic)
    tls.x509 = _Proxy(saved["x509"], load_der_x509_certificate=ideal_load_der)
    tls.verify_certificate = _ideal_verify_certificate(tls)
    tls.os = _Proxy(saved["os"], urandom=_urandom)
    fixed_now = datetime.datetime(2026, 1, 1, tzinfo=datetime.timezone.utc)
    tls.utcnow = lambda: fixed_now
    sx.UNIQUE_VIEWS = True
    sx.CONCRETE_PULLS = _harness_controlled
    sx.CONCRETIZE_CAP = 1200  # a one-byte length field may be the altered byte
    try:
        yield
    finally:
        sx.UNIQUE_VIEWS = False
        sx.CONCRETE_PULLS = None
        sx.CONCRETIZE_CAP = 64
        tls.__dict__.update(saved)


def path_reset():
    """call at the start of every harness execution"""
    reset()
    _DH_COUNTER[0] = 0
    _URANDOM[0] = 0


STUBS = [
    "cryptography hashes.Hash / hmac.HMAC / HKDFExpand -> ideal functions (fresh output bytes; inputs equal <=> outputs equal)",
    "comparison with a locally computed MAC succeeds only for another MAC output over equal inputs (unforgeability)",
    "X25519 -> ideal commutative key agreement over opaque 32-byte public values",
    "x509.load_der_x509_certificate -> opaque certificates; unknown encodings are untrusted with a key nobody honest holds",
    "sign/verify -> verification succeeds only for an output of sign() under the same key, parameters and data (EUF-CMA)",
    "verify_certificate -> validity relation of the harness' certificates (trusted, unexpired, name listed); OpenSSL path validation not encoded",
    "os.urandom -> fixed pseudo-random stream (values are never branched on); utcnow -> fixed instant (ticket validity is decided by the harness)",
]


# ------------------------------------------------------------------ identities (both modes)
NAME = "server.test"
OTHER = "other.test"
IPNAME = "192.0.2.7"


class Identity:
    def __init__(self, cert, key, label):
        self.cert, self.key, self.label = cert, key, label


class IdealProvider:
    real = False

    def __init__(self):
        self.cadata = b"ideal-ca"

        def mk(i, names, trusted=True, expired=False, label=""):
            der = b"\x30\x3e" + bytes([i]) * 62
            k = IdealPrivateKey()
            c = IdealCert(der, k.keyid, names, trusted, expired)
            W.certs.append(c)
            return Identity(c, k, label)

        self.valid = mk(1, (NAME,), label="valid")
        self.wrongname = mk(2, (OTHER,), label="wrongname")
        self.untrusted = mk(3, (NAME,), trusted=False, label="untrusted")
        self.expired = mk(4, (NAME,), expired=True, label="expired")
        self.client = mk(5, ("client",), label="client")

    def ticket(self, tls, cipher_suite, server_name=NAME, early=False):
        now = tls.utcnow()
        return tls.SessionTicket(age_add=7, cipher_suite=cipher_suite, not_valid_after=now + datetime.timedelta(days=1), not_valid_before=now - datetime.timedelta(seconds=5), resumption_secret=hashlib.sha384(b"resumption").digest()[: (48 if int(cipher_suite) == 0x1302 else 32)], server_name=server_name, ticket=b"ticket-0001", max_early_data_size=(0xFFFFFFFF if early else None))


_REAL = {}


class RealProvider(IdealProvider):
    real = True

    def __init__(self):
        if not _REAL:
            from cryptography import x509
            from cryptography.hazmat.primitives import hashes, serialization
            from cryptography.hazmat.primitives.asymmetric import ec

            utc = datetime.timezone.utc
            now = datetime.datetime.now(utc)

            def name(cn):
                return x509.Name([x509.NameAttribute(x509.NameOID.COMMON_NAME, cn)])

            ca_key = ec.generate_private_key(ec.SECP256R1())
            ca = x509.CertificateBuilder().subject_name(name("verif ca")).issuer_name(name("verif ca")).public_key(ca_key.public_key()).serial_number(x509.random_serial_number()).not_valid_before(now - datetime.timedelta(days=1)).not_valid_after(now + datetime.timedelta(days=30)).add_extension(x509.BasicConstraints(ca=True, path_length=None), critical=True).sign(ca_key, hashes.SHA256())

            def leaf(cn, sans, signer_key=ca_key, issuer="verif ca", nb=now - datetime.timedelta(days=1), na=now + datetime.timedelta(days=10)):
                k = ec.generate_private_key(ec.SECP256R1())
                b = x509.CertificateBuilder().subject_name(name(cn)).issuer_name(name(issuer)).public_key(k.public_key()).serial_number(x509.random_serial_number()).not_valid_before(nb).not_valid_after(na)
                b = b.add_extension(x509.SubjectAlternativeName([x509.DNSName(s) for s in sans]), critical=False)
                return b.sign(signer_key if signer_key is not None else k, hashes.SHA256()), k

            _REAL["cadata"] = ca.public_bytes(serialization.Encoding.PEM)
            _REAL["valid"] = leaf(NAME, [NAME])
            _REAL["wrongname"] = leaf(OTHER, [OTHER])
            _REAL["untrusted"] = leaf(NAME, [NAME], signer_key=None, issuer=NAME)
            _REAL["expired"] = leaf(NAME, [NAME], nb=now - datetime.timedelta(days=20), na=now - datetime.timedelta(days=10))
            _REAL["client"] = leaf("client", ["client"])
        self.cadata = _REAL["cadata"]
        for lab in ("valid", "wrongname", "untrusted", "expired", "client"):
            c, k = _REAL[lab]
            setattr(self, lab, Identity(c, k, lab))


def provider():
    return RealProvider() if sx.E.mode == "replay" else IdealProvider()


# ------------------------------------------------------------------ handshake plumbing (both modes)
def bufs(tls, B, cap=4096):
    return {tls.Epoch.INITIAL: B(capacity=cap), tls.Epoch.HANDSHAKE: B(capacity=cap), tls.Epoch.ONE_RTT: B(capacity=cap)}


def split_messages(data):
    """split a flight into handshake messages (4-byte headers with concrete lengths)"""
    out = []
    d = SymBytes.of(data) if not isinstance(data, (bytes, bytearray)) else data
    n = sx._len(d)
    pos = 0
    while pos < n:
        ln = 0
        for k in (1, 2, 3):
            b = d[pos + k]
            ln = ln * 256 + int(b)
        out.append(d[pos : pos + 4 + ln])
        pos += 4 + ln
    return out


def msg_type(m):
    return int(m[0])


class KeyLog:
    """records update_traffic_key_cb calls"""

    def __init__(self):
        self.calls = []

    def __call__(self, direction, epoch, cipher_suite, secret):
        self.calls.append((direction, epoch, cipher_suite, secret))

    def has(self, direction, epoch):
        return any(c[0] == direction and c[1] == epoch for c in self.calls)

    def secret(self, direction, epoch):
        for c in self.calls:
            if c[0] == direction and c[1] == epoch:
                return c[3]
        return None


def make_client(tls, P, server_name=NAME, alpn=None, cipher_suites=None, ticket=None, want_tickets=False, client_cert=False):
    c = tls.Context(is_client=True, alpn_protocols=alpn, cadata=P.cadata, cipher_suites=cipher_suites, server_name=server_name)
    c._supported_groups = [tls.Group.X25519]
    c.keylog = KeyLog()
    c.update_traffic_key_cb = c.keylog
    if ticket is not None:
        c.session_ticket = ticket
    if want_tickets:
        c.tickets = []
        c.new_session_ticket_cb = c.tickets.append
    if client_cert:
        c.certificate = P.client.cert
        c.certificate_private_key = P.client.key
    return c


def make_server(tls, P, ident=None, alpn=None, cipher_suites=None, tickets=None, request_client_cert=False, issue_tickets=False):
    s = tls.Context(is_client=False, alpn_protocols=alpn, cadata=P.cadata, cipher_suites=cipher_suites)
    ident = ident or P.valid
    s.certificate = ident.cert
    s.certificate_private_key = ident.key
    s._supported_groups = [tls.Group.X25519]
    s.keylog = KeyLog()
    s.update_traffic_key_cb = s.keylog
    if tickets is not None:
        s.get_session_ticket_cb = lambda label: tickets.get(bytes(label) if not isinstance(label, SymBytes) else _sym_label(label, tickets))
    if issue_tickets:
        s.issued = []
        s.new_session_ticket_cb = s.issued.append
    s._request_client_certificate = request_client_cert
    return s


def _sym_label(label, tickets):
    for k in tickets:
        if label == k:
            return k
    return None
