"""Translator validation (Serval style): concrete inputs pushed through both the real
objects and the symbolic stand-ins.  Not a deciding step -- it guards the encodings."""
from __future__ import annotations

import random

import z3

from . import symx as sx
from .twinbuf import TwinBuffer


def _conc(v):
    """concrete value of a proxy whose term has no free variables"""
    if isinstance(v, sx.SymInt):
        return z3.simplify(v.e).as_long()
    if isinstance(v, sx.SymBytes):
        n = _conc(v.length)
        return bytes(z3.simplify(v.get(z3.IntVal(i))).as_long() for i in range(n))
    if isinstance(v, sx.SymBool):
        return z3.is_true(z3.simplify(v.e))
    return v


def buffer_differential(rounds=300, seed=0):
    """random method sequences on small buffers: real C Buffer vs TwinBuffer"""
    from aioquic._buffer import Buffer, BufferReadError, BufferWriteError

    rnd = random.Random(seed)
    sx.E.mode = "sym"
    sx.E.reset_all()
    sx.E.start_run()
    mismatches = []
    calls = 0
    interesting = [0, 1, 63, 64, 255, 256, 16383, 16384, 65535, 65536, (1 << 30) - 1, 1 << 30, (1 << 32) - 1, 1 << 32, (1 << 62) - 1, 1 << 62, (1 << 64) - 1, 1 << 64, -1, -2]
    for r in range(rounds):
        if rnd.random() < 0.5:
            data = bytes(rnd.choice([0, 0x3F, 0x40, 0x7F, 0x80, 0xBF, 0xC0, 0xFF, rnd.randrange(256)]) for _ in range(rnd.randrange(0, 12)))
            a, b = Buffer(data=data), TwinBuffer(data=data)
        else:
            cap = rnd.randrange(0, 12)
            a, b = Buffer(capacity=cap), TwinBuffer(capacity=cap)
            for o in (a, b):  # malloc'ed content is arbitrary in C: normalise it
                o.push_bytes(bytes(cap))
                o.seek(0)
        for _ in range(rnd.randrange(1, 8)):
            m = rnd.choice(["pull_uint8", "pull_uint16", "pull_uint32", "pull_uint64", "pull_uint_var", "pull_bytes", "push_bytes", "push_uint8", "push_uint16", "push_uint32", "push_uint64", "push_uint_var", "seek", "tell", "eof", "data_slice", "data", "capacity"])
            if m in ("pull_bytes", "seek"):
                args = (rnd.choice([-1, 0, 1, 2, 5, 11, 12, 13]),)
            elif m == "push_bytes":
                args = (bytes(rnd.randrange(256) for _ in range(rnd.randrange(0, 6))),)
            elif m.startswith("push"):
                args = (rnd.choice(interesting + [rnd.randrange(1 << 64)]),)
            elif m == "data_slice":
                args = (rnd.choice([-1, 0, 1, 3, 12, 13]), rnd.choice([-1, 0, 2, 4, 12, 13]))
            else:
                args = ()
            calls += 1
            outs = []
            for obj in (a, b):
                try:
                    if m in ("data", "capacity"):
                        v = getattr(obj, m)
                    else:
                        v = getattr(obj, m)(*args)
                    outs.append(("ok", _conc(v)))
                except (BufferReadError, BufferWriteError, ValueError, OverflowError, TypeError) as e:
                    outs.append(("exc", type(e).__name__))
            st = (a.tell(), _conc(b.tell()), a.data, _conc(b.data))
            if outs[0] != outs[1] or st[0] != st[1] or st[2] != st[3]:
                mismatches.append((m, args, outs, st))
    return calls, mismatches


def proxy_conformance():
    """SymInt / SymBytes operations against CPython on boundary values"""
    sx.E.mode = "sym"
    sx.E.reset_all()
    sx.E.start_run()
    bad = []
    vals = [-(1 << 64) - 1, -257, -256, -255, -3, -1, 0, 1, 2, 7, 63, 64, 255, 256, 1 << 31, (1 << 62) - 1, 1 << 62, (1 << 64) - 1, 1 << 64]
    consts = [-256, -3, -1, 1, 3, 0x3F, 0xC0, 0xFF, 256, 1 << 32, (1 << 62) - 1]
    n = 0
    for a in vals:
        sa = sx.SymInt(z3.IntVal(a))
        for c in consts:
            for name, f in (("+", lambda x, y: x + y), ("-", lambda x, y: x - y), ("*", lambda x, y: x * y), ("//", lambda x, y: x // y), ("%", lambda x, y: x % y), ("&", lambda x, y: x & y), ("|", lambda x, y: x | y), ("^", lambda x, y: x ^ y), ("r-", lambda x, y: y - x), ("r//", lambda x, y: y // x if a else 0), ("r%", lambda x, y: y % x if a else 0)):
                n += 1
                exp = f(a, c)
                got = _conc(f(sa, c))
                if exp != got:
                    bad.append((a, name, c, exp, got))
        for k in (0, 1, 6, 8, 62):
            n += 2
            if _conc(sa << k) != a << k:
                bad.append((a, "<<", k))
            if _conc(sa >> k) != a >> k:
                bad.append((a, ">>", k))
        if _conc(~sa) != ~a:
            bad.append((a, "~"))
    data = bytes(range(10))
    sb = sx.SymBytes.of(data)
    for i in (None, -12, -10, -3, 0, 2, 9, 10, 11):
        for j in (None, -12, -3, 0, 2, 9, 10, 15):
            n += 1
            if _conc(sb[i:j]) != data[i:j]:
                bad.append(("slice", i, j))
            ba, sba = bytearray(data), sx.SymByteArray(sx.SymBytes.of(data))
            ba[i:j] = b"xyz"
            sba[i:j] = b"xyz"
            if _conc(sba) != bytes(ba):
                bad.append(("setslice", i, j, bytes(ba), _conc(sba)))
            ba, sba = bytearray(data), sx.SymByteArray(sx.SymBytes.of(data))
            del ba[i:j]
            del sba[i:j]
            if _conc(sba) != bytes(ba):
                bad.append(("delslice", i, j))
    for v in (0, 1, 255, 256, 65535, (1 << 32) - 1):
        for ln in (1, 2, 4, 8):
            if v < 1 << (8 * ln):
                n += 1
                if _conc(sx.SymInt(z3.IntVal(v)).to_bytes(ln, "big")) != v.to_bytes(ln, "big"):
                    bad.append(("to_bytes", v, ln))
                if _conc(sx.sym_int.from_bytes(sx.SymBytes.of(v.to_bytes(ln, "big")), "big")) != v:
                    bad.append(("from_bytes", v, ln))
    return n, bad


if __name__ == "__main__":
    c, mm = buffer_differential()
    print("buffer differential: %d calls, %d mismatches" % (c, len(mm)))
    for x in mm[:5]:
        print("  ", x)
    n, bad = proxy_conformance()
    print("proxy conformance: %d cases, %d mismatches" % (n, len(bad)))
    for x in bad[:8]:
        print("  ", x)
