"""Virtual event loop and nondeterministic QUIC stub for the asyncio adapter (C19).

The code under test is aioquic/asyncio/protocol.py and server.py (and quic/retry.py), unmodified.
The event loop becomes a data structure the harness steps: which ready callback, timer or datagram
runs next is a solver-chosen decision, timer instants are symbolic reals.  The QUIC engine below
the adapter is replaced by FakeQuic, which emits any sequence of events a QuicConnection may emit
(the sequencing facts it is constrained by are listed in ASSUMPTIONS of vf/props/c19.py).
"""
from __future__ import annotations

import asyncio
import collections
import contextlib

from . import symx as sx


class FakeLoop(asyncio.AbstractEventLoop):
    def __init__(self):
        self.now = 0.0
        self.ready = collections.deque()
        self.timers = []
        self.errors = []
        self.ran = 0

    # -- API used by protocol.py, futures, tasks, streams
    def time(self):
        return self.now

    def get_debug(self):
        return False

    def is_running(self):
        return True

    def is_closed(self):
        return False

    def create_future(self):
        return asyncio.Future(loop=self)

    def create_task(self, coro, **kw):
        return asyncio.Task(coro, loop=self)

    def call_soon(self, callback, *args, context=None):
        h = asyncio.Handle(callback, args, self, context)
        self.ready.append(h)
        return h

    call_soon_threadsafe = call_soon

    def call_at(self, when, callback, *args, context=None):
        h = asyncio.TimerHandle(when, callback, args, self, context)
        self.timers.append(h)
        return h

    def call_later(self, delay, callback, *args, context=None):
        return self.call_at(self.now + delay, callback, *args, context=context)

    def _timer_handle_cancelled(self, handle):
        pass

    def call_exception_handler(self, context):
        self.errors.append(context)

    def default_exception_handler(self, context):
        self.errors.append(context)

    # -- stepping
    def active_timers(self):
        return [t for t in self.timers if not t.cancelled()]

    def run_handle(self, h):
        self.ran += 1
        if h.cancelled():
            return
        h._run()  # exceptions go to call_exception_handler

    def run_ready(self, limit=50):
        """run ready callbacks until none is left (FIFO, like asyncio)"""
        n = 0
        while self.ready:
            n += 1
            if n > limit:
                raise AssertionError("ready queue does not drain")
            self.run_handle(self.ready.popleft())

    def fire_timer(self, t):
        self.timers.remove(t)
        w = t.when()
        self.now = sx.ite(w > self.now, w, self.now) if sx.is_sym(w) or sx.is_sym(self.now) else max(w, self.now)
        self.run_handle(t)


@contextlib.contextmanager
def running(loop):
    old = asyncio.events._get_running_loop()
    asyncio.events._set_running_loop(loop)
    try:
        yield loop
    finally:
        asyncio.events._set_running_loop(old)


class Datagram:
    """opaque datagram: only its size matters to the adapter"""

    def __init__(self, size, header=None):
        self.size = size
        self.header = header

    def __len__(self):
        return self.size


class FakeTransport:
    def __init__(self):
        self.sent = []
        self.closed = False

    def sendto(self, data, addr=None):
        self.sent.append((data, addr))

    def close(self):
        self.closed = True


class FakeQuic:
    """nondeterministic stand-in for QuicConnection: every mutator may queue solver-chosen events and
    change the timer; the legal-sequence facts are enforced here"""

    counter = 0

    def __init__(self, name="q", server=False, max_events=2, host_cid=None, kinds=None, timer_mode="free", **ctor):
        self.name = name
        self.ctor = ctor
        self.kinds = kinds  # event kinds this instance may emit (None: all)
        self.timer_mode = timer_mode  # free: presence and instant change at every mutator; fixed: one constant deadline
        self.server = server
        self.events = collections.deque()
        self.handshake_done = False
        self.terminated = False  # ConnectionTerminated queued
        self.closing = False
        self.pings = []  # uids sent, not yet acknowledged
        self.ping_log = []  # every uid passed to send_ping, in order
        self.acked = set()
        self.unsent = False  # something was queued for sending since the last datagrams_to_send()
        self.timer = None
        self.n = 0
        self.max_events = max_events
        self.chunks_in = []  # stream data events emitted: (stream_id, data, fin)
        self.fin_in = set()
        self.writes = []
        self.next_stream = 0
        self.host_cid = host_cid
        self.issued = [host_cid] if host_cid is not None else []
        self.retired = []
        self.transmits = 0
        self.cid_source = None  # callable -> fresh cid (server mode)

    # -- helpers
    def _fresh(self, what):
        self.n += 1
        return "%s.%s%d" % (self.name, what, self.n)

    def _new_timer(self):
        if self.terminated:
            self.timer = None
            return
        if self.timer_mode == "fixed":
            self.timer = 500.0
            return
        # presence of a timer is a decision; its instant is symbolic and only decided if the adapter compares it
        if sx.Bool(self._fresh("timer_none")):
            self.timer = None
            return
        new = sx.Real(self._fresh("timer_at"), 0, 1000)
        if self.timer is None:
            self.timer = new
        else:
            self.timer = sx.ite(sx.SBool(self._fresh("timer_kept")), self.timer, new)

    def _emit(self):
        from aioquic.quic import events as ev

        for _ in range(self.max_events):
            if self.terminated:
                break
            kinds = ["none", "terminated", "stream"]
            if not self.handshake_done:
                kinds.append("handshake")
            if self.pings:
                kinds.append("ping_ack")
            if self.server and self.cid_source is not None:
                kinds.append("cid_issued")
                if len([c for c in self.issued if not any(c is r for r in self.retired)]) > 1:
                    kinds.append("cid_retired")
            if self.kinds is not None:
                kinds = [k for k in kinds if k == "none" or k in self.kinds]
            k = kinds[sx.Choice(self._fresh("event"), len(kinds))] if len(kinds) > 1 else "none"
            if k == "none":
                break
            if k == "terminated":
                self.terminated = True
                self.events.append(ev.ConnectionTerminated(error_code=0, frame_type=None, reason_phrase=""))
            elif k == "handshake":
                self.handshake_done = True
                self.events.append(ev.HandshakeCompleted(alpn_protocol=None, early_data_accepted=False, session_resumed=False))
            elif k == "ping_ack":
                uid = self.pings.pop(sx.Choice(self._fresh("which_ping"), len(self.pings)))
                self.acked.add(self.ping_log.index(uid))  # by position: id()-based uids may be reused
                self.ping_log[self.ping_log.index(uid)] = ("acked", uid)
                self.events.append(ev.PingAcknowledged(uid=uid))
            elif k == "stream":
                sid = 1 if not self.server else 0  # peer-initiated bidirectional stream
                if sid in self.fin_in:
                    continue
                fin = sx.Bool(self._fresh("fin"))
                data = b"<%d>" % len(self.chunks_in)
                self.chunks_in.append((sid, data, fin))
                if fin:
                    self.fin_in.add(sid)
                self.events.append(ev.StreamDataReceived(data=data, end_stream=fin, stream_id=sid))
            elif k == "cid_issued":
                cid = self.cid_source()
                self.issued.append(cid)
                self.events.append(ev.ConnectionIdIssued(connection_id=cid))
            elif k == "cid_retired":
                live = [c for c in self.issued if not any(c is r for r in self.retired)]
                cid = live[sx.Choice(self._fresh("which_cid"), len(live))]
                self.retired.append(cid)
                self.events.append(ev.ConnectionIdRetired(connection_id=cid))

    # -- QuicConnection API used by the adapter
    def connect(self, addr, now):
        self.unsent = True
        self._new_timer()

    def receive_datagram(self, data, addr, now):
        self._emit()
        self._new_timer()

    def handle_timer(self, now):
        self._emit()
        self._new_timer()

    def next_event(self):
        return self.events.popleft() if self.events else None

    def get_timer(self):
        return self.timer

    def datagrams_to_send(self, now):
        self.transmits += 1
        self.unsent = False
        return [(Datagram(100), ("peer", 1))]

    def send_ping(self, uid):
        self.pings.append(uid)
        self.ping_log.append(uid)
        self.unsent = True

    def send_stream_data(self, stream_id, data, end_stream=False):
        self.writes.append((stream_id, bytes(data), end_stream))
        self.unsent = True

    def get_next_available_stream_id(self, is_unidirectional=False):
        sid = self.next_stream * 4 + (1 if self.server else 0) + (2 if is_unidirectional else 0)
        self.next_stream += 1
        return sid

    def close(self, error_code=0, frame_type=None, reason_phrase=""):
        self.closing = True
        self.unsent = True
        self._new_timer()

    def change_connection_id(self):
        self.unsent = True

    def request_key_update(self):
        self.unsent = True
