"""Connection-level harness support: concretely built QuicConnection states that symx
harnesses copy per path and drive with symbolic packets.

Exploration mode: a real client/server pair completes a real handshake once per worker
(before any shim is installed); the endpoints' packet protection is then replaced by a
*transparent* pair (DESIGN 3.2: a key-holding peer can make the decryptor return any
payload), TLS by a nondeterministic stub, C Buffers by twins, and the resulting object
graph is deep-copied for every path.

Replay mode: the real pair with its real keys; the counterexample payload is sealed
with the peer's real CryptoPair and delivered through receive_datagram().
"""
from __future__ import annotations

import copy
import os

from . import symx as sx
from .twinbuf import TwinBuffer

REPO = os.environ.get("VERIF_REPO", "/repo")
ADDR_C = ("1.2.3.4", 1234)
ADDR_S = ("2.3.4.5", 4433)


# --------------------------------------------------------------------------
# concrete pair
# --------------------------------------------------------------------------
def make_pair(client_opts=None, server_opts=None, handshake=True, cc="reno"):
    from aioquic.quic.configuration import QuicConfiguration
    from aioquic.quic.connection import QuicConnection

    ccfg = QuicConfiguration(is_client=True, congestion_control_algorithm=cc)
    ccfg.verify_mode = 0  # ssl.CERT_NONE
    for k, v in (client_opts or {}).items():
        setattr(ccfg, k, v)
    scfg = QuicConfiguration(is_client=False, congestion_control_algorithm=cc)
    scfg.load_cert_chain(os.path.join(REPO, "tests", "ssl_cert.pem"), os.path.join(REPO, "tests", "ssl_key.pem"))
    for k, v in (server_opts or {}).items():
        setattr(scfg, k, v)
    client = QuicConnection(configuration=ccfg)
    client._ack_delay = 0
    server = QuicConnection(configuration=scfg, original_destination_connection_id=client.original_destination_connection_id)
    server._ack_delay = 0
    if handshake:
        client.connect(ADDR_S, now=0.0)
        for _ in range(6):
            transfer(client, server, 0.1)
            transfer(server, client, 0.1)
        assert client._handshake_confirmed and server._handshake_confirmed, "handshake did not complete"
        drain_events(client)
        drain_events(server)
    return client, server


def transfer(a, b, now):
    n = 0
    for data, addr in a.datagrams_to_send(now=now):
        b.receive_datagram(data, ADDR_C if a._is_client else ADDR_S, now=now)
        n += 1
    return n


def drain_events(conn):
    out = []
    while True:
        e = conn.next_event()
        if e is None:
            return out
        out.append(e)


# --------------------------------------------------------------------------
# transparent packet protection
# --------------------------------------------------------------------------
class FakeContext:
    def __init__(self, valid=True):
        self.valid = valid
        self.key_phase = 0

    def is_valid(self):
        return self.valid


class CryptoErrorChoice:
    """per-path switch: the next decrypt raises CryptoError (forged / damaged packet)"""

    fail_next = False


class FakeCryptoPair:
    """encrypt = header || payload || 16 zero bytes;  decrypt is its inverse (2-byte packet numbers)"""

    aead_tag_size = 16

    def __init__(self, valid=False, **callbacks):
        self.send = FakeContext(valid)
        self.recv = FakeContext(valid)
        self._update_key_requested = False

    @property
    def key_phase(self):
        return self.recv.key_phase

    def update_key(self):
        self._update_key_requested = True

    def teardown(self):
        self.send.valid = False
        self.recv.valid = False

    sender_initial_cid = None  # the connection ID the genuine peer derives its Initial keys from

    def setup_initial(self, cid, is_client, version):
        self.send.valid = self.recv.valid = True
        self.initial_cid = cid

    def encrypt_packet(self, plain_header, plain_payload, packet_number):
        return plain_header + plain_payload + bytes(16)

    def decrypt_packet(self, packet, encrypted_offset, expected_packet_number):
        from aioquic._crypto import CryptoError
        from aioquic.quic.crypto import KeyUnavailableError
        from aioquic.quic.packet import decode_packet_number

        if not self.recv.valid:
            raise KeyUnavailableError("Decryption key is not available")
        n = sx.sym_len(packet)
        wrong_key = False
        if FakeCryptoPair.sender_initial_cid is not None and getattr(self, "initial_cid", None) is not None:
            # Initial keys are a function of the client's first destination CID: they only open
            # the genuine peer's packets when derived from the same CID
            wrong_key = not (self.initial_cid == FakeCryptoPair.sender_initial_cid)
        if wrong_key or CryptoErrorChoice.fail_next or sx.truth(n < encrypted_offset + 2 + 16):
            CryptoErrorChoice.fail_next = False
            raise CryptoError("Payload decryption failed")
        plain_header = packet[: encrypted_offset + 2]
        pn_trunc = packet[encrypted_offset] * 256 + packet[encrypted_offset + 1]
        pn = decode_packet_number(pn_trunc, 16, expected_packet_number)
        return plain_header, packet[encrypted_offset + 2 : n - 16], pn


class TlsModuleProxy:
    """the aioquic.tls module with Context replaced by the nondeterministic stub"""

    def __getattr__(self, name):
        from aioquic import tls

        if name == "Context":
            return FreshFakeTLS
        return getattr(tls, name)


class FreshFakeTLS:
    """tls.Context stand-in for connections that initialise themselves under the shims"""

    def __init__(self, **kw):
        from aioquic import tls

        self.is_client = kw.get("is_client")
        self.state = tls.State.CLIENT_HANDSHAKE_START if self.is_client else tls.State.SERVER_EXPECT_CLIENT_HELLO
        self.alpn_negotiated = None
        self.early_data_accepted = False
        self.session_resumed = False
        self.key_schedule = None
        self.received_extensions = []
        self.calls = 0

    def handle_message(self, data, output):
        FakeTLS.handle_message(self, data, output)


class FakeTLS:
    """stand-in for tls.Context after the handshake: any further handshake bytes are either
    consumed silently or refused with an alert (solver's choice)"""

    honor_replay = False  # replay mode: take the recorded outcome instead of "consumed silently"

    def __init__(self, real):
        from aioquic import tls

        self.state = real.state
        self.alpn_negotiated = real.alpn_negotiated
        self.early_data_accepted = real.early_data_accepted
        self.session_resumed = real.session_resumed
        self.key_schedule = None
        self.calls = 0

    def handle_message(self, data, output):
        from aioquic import tls

        if sx.length_of(data) == 0:
            return  # client start: producing the ClientHello does not fail
        self.calls += 1
        c = sx.Choice("tls_outcome%d" % self.calls, 3) if (sx.E.mode == "sym" or FakeTLS.honor_replay) else 0
        if c == 1:
            raise tls.AlertUnexpectedMessage("unexpected message")
        if c == 2:
            raise tls.AlertDecodeError("decode error")


# --------------------------------------------------------------------------
# templates
# --------------------------------------------------------------------------
_TEMPLATES = {}


def symbolize(conn, keep_logger=False):
    """make a concretely built connection usable under the shims (in replay mode: only the packet
    protection and TLS stand-ins, so that two copies of one connection can be driven concretely)"""
    from aioquic import tls as tlsmod

    loggers = (conn._quic_logger, conn._loss._quic_logger)

    for d in (conn._cryptos, conn._cryptos_initial):
        for k in list(d):
            d[k] = FakeCryptoPair(valid=d[k].recv.is_valid() or d[k].send.is_valid())
    for ep in list(conn._crypto_buffers):
        conn._crypto_buffers[ep] = TwinBuffer(capacity=4096)
    conn.tls = FakeTLS(conn.tls)
    streams = list(conn._streams.values()) + list(conn._crypto_streams.values())
    for st in streams if sx.E.mode == "sym" else []:
        st.receiver._buffer = sx.SymByteArray(sx.SymBytes.of(bytes(st.receiver._buffer)))
        st.sender._buffer = sx.SymByteArray(sx.SymBytes.of(bytes(st.sender._buffer)))
    conn._quic_logger = None
    conn._loss._quic_logger = None
    if keep_logger:
        conn._quic_logger, conn._loss._quic_logger = loggers
    return conn


def prepare(name, builder):
    """build a named template once per process (call before shims are installed)"""
    if name not in _TEMPLATES:
        _TEMPLATES[name] = builder()
    return _TEMPLATES[name]


def clone(conn):
    memo = {}
    for obj in (conn._configuration, conn._logger, conn._logger.logger if hasattr(conn._logger, "logger") else None):
        if obj is not None:
            memo[id(obj)] = obj
    return copy.deepcopy(conn, memo)


class Peer:
    """what the harness needs to talk to `conn` as its peer"""

    def __init__(self, conn, peer=None, model=False):
        self.conn = conn
        self.peer = peer  # real peer connection (replay mode only)
        self.model = model  # replay against the transparent packet protection as well (C20 twins)
        self.pn = {}

    def addr(self):
        return ADDR_S if self.conn._is_client else ADDR_C

    def next_pn(self, epoch):
        from aioquic import tls

        space = self.conn._spaces[tls.Epoch.ONE_RTT if epoch == tls.Epoch.ZERO_RTT else epoch]
        return max(space.expected_packet_number, self.pn.get(epoch, 0))

    def datagram(self, epoch, payload, pn=None, dcid=None):
        """a packet of the given epoch carrying `payload` (bytes or SymBytes), as the peer would protect it"""
        from aioquic import tls
        from aioquic.quic.packet import QuicPacketType, encode_long_header_first_byte

        conn = self.conn
        if pn is None:
            pn = self.next_pn(epoch)
        self.pn[epoch] = pn + 1
        dcid = conn.host_cid if dcid is None else dcid
        if epoch == tls.Epoch.ONE_RTT:
            header = bytes([0x41]) + dcid
        else:
            ptype = {tls.Epoch.INITIAL: QuicPacketType.INITIAL, tls.Epoch.HANDSHAKE: QuicPacketType.HANDSHAKE, tls.Epoch.ZERO_RTT: QuicPacketType.ZERO_RTT}[epoch]
            scid = conn._peer_cid.cid
            header = bytes([encode_long_header_first_byte(conn._version, ptype, 1)]) + conn._version.to_bytes(4, "big") + bytes([len(dcid)]) + dcid + bytes([len(scid)]) + scid
            if epoch == tls.Epoch.INITIAL:
                header += b"\x00"
            plen = sx.length_of(payload) + 2 + 16
            if isinstance(plen, int):
                header += (plen | 0x4000).to_bytes(2, "big")
            else:
                B = sx.BufferClass()
                b = B(capacity=2)
                b.push_uint16(plen + 0x4000)
                header = header + b.data
        pnb = (pn & 0xFFFF).to_bytes(2, "big")
        if sx.E.mode == "replay" and not self.model:
            crypto = self.peer._cryptos[epoch] if epoch != tls.Epoch.INITIAL else self.peer._cryptos_initial[conn._version]
            pay = bytes(payload)
            if len(pay) < 4:
                pay = pay + bytes(4 - len(pay))  # PADDING frames: room for the header-protection sample
                if epoch != tls.Epoch.ONE_RTT:
                    raise sx.Unreplayable("short long-header payload")
            return crypto.encrypt_packet(header + pnb, pay, pn)
        return header + pnb + payload + bytes(16)

    def deliver(self, epoch, payload, now=1.0, pn=None, dcid=None, addr=None):
        self.conn.receive_datagram(self.datagram(epoch, payload, pn=pn, dcid=dcid), addr or self.addr(), now=now)


def connected_template(role, **opts):
    """symbolized, handshake-confirmed endpoint (exploration mode)"""

    def build():
        client, server = make_pair(**opts)
        conn = client if role == "client" else server
        return symbolize(conn)

    return build


def get(name, role, **opts):
    """per-path connection + peer handle (mode aware)"""
    if sx.E.mode == "replay":
        client, server = make_pair(**opts)
        conn, peer = (client, server) if role == "client" else (server, client)
        return Peer(conn, peer)
    tmpl = prepare(name, connected_template(role, **opts))
    return Peer(clone(tmpl))


class _DetOS:
    """os with a deterministic urandom, so that two endpoints constructed in turn draw equal 'random' IDs"""

    def __init__(self):
        import os

        self._os = os
        self.n = 0

    def __getattr__(self, k):
        return getattr(self._os, k)

    def urandom(self, n):
        self.n += 1
        return bytes(((self.n * 37 + i * 11) % 251) + 1 for i in range(n))


DET = _DetOS()


def _dump_cid(cid):
    if isinstance(cid, sx.SymBytes):
        return "<cid>"
    import binascii

    return binascii.hexlify(cid).decode("ascii")


def _deterministic_hashes():
    """sets of stream objects are iterated by the code under test; identity hashes would make
    that order depend on memory addresses and the re-execution non-deterministic"""
    import aioquic.quic.stream as st

    if getattr(st.QuicStream, "_verif_hash", False):
        return
    st.QuicStream.__hash__ = lambda self: hash(("stream", self.stream_id if isinstance(self.stream_id, int) or self.stream_id is None else 0))
    st.QuicStream.__eq__ = lambda self, other: self is other
    st.QuicStream._verif_hash = True


def conn_shims(extra=()):
    _deterministic_hashes()
    import aioquic.quic.congestion.cubic as cubic
    import aioquic.quic.congestion.reno as reno
    import aioquic.quic.connection as qc
    import aioquic.quic.packet as pk
    import aioquic.quic.packet_builder as pb
    import aioquic.quic.rangeset as rs
    import aioquic.quic.recovery as rec
    import aioquic.quic.stream as st

    return {
        qc: ["len", "min", "max", "bytes", "int", "isinstance", "range", ("Buffer", TwinBuffer), ("dump_cid", _dump_cid)] + list(extra),
        pk: ["len", "range", ("Buffer", TwinBuffer)],
        pb: ["len", "bytes", ("Buffer", TwinBuffer)],
        st: ["len", "bytes", "bytearray", "min", "max"],
        rs: ["range", "min", "max", "len"],
        rec: ["len", "min", "max", "int", "range", "abs", "sum"],
        reno: ["int", "max", "min"],
        cubic: ["int", "max", "min"],
    }
