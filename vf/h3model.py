"""Environment for the HTTP/3 layer: a recording stand-in for QuicConnection and an
ideal QPACK codec (pylsqpack is a C library and cannot be encoded).

Ideal QPACK: the decoder returns whatever header list the harness scripted for the
frame (a key-holding peer can make a conforming decoder return any list), or raises
one of its documented errors; the encoder is an identity codec that remembers the
header list under a token carried in the frame bytes."""
from __future__ import annotations

from . import symx as sx
from .twinbuf import TwinBuffer


class FakeConfig:
    def __init__(self, is_client):
        self.is_client = is_client


class FakeQuic:
    def __init__(self, is_client, logger=None, remote_max_datagram_frame_size=65536):
        self.configuration = FakeConfig(is_client)
        self._quic_logger = logger
        self._remote_max_datagram_frame_size = remote_max_datagram_frame_size
        self.sent = []  # (stream_id, data, end_stream)
        self.closed = None
        self._next_uni = 2 if is_client else 3
        self._next_bidi = 0 if is_client else 1
        self.datagrams = []

    def get_next_available_stream_id(self, is_unidirectional=False):
        if is_unidirectional:
            v = self._next_uni
            self._next_uni += 4
        else:
            v = self._next_bidi
            self._next_bidi += 4
        return v

    def send_stream_data(self, stream_id, data, end_stream=False):
        self.sent.append((stream_id, data, end_stream))

    def send_datagram_frame(self, data):
        self.datagrams.append(data)

    def close(self, error_code=0, frame_type=None, reason_phrase=""):
        if self.closed is None:
            self.closed = (error_code, reason_phrase)


class StreamBlocked(Exception):
    pass


class DecompressionFailed(Exception):
    pass


class EncoderStreamError(Exception):
    pass


class DecoderStreamError(Exception):
    pass


class IdealDecoder:
    """script: callable(stream_id, frame_data) -> headers | raises; set per harness via IdealQpack.script"""

    def __init__(self, max_table_capacity, blocked_streams):
        self.blocked = {}

    def feed_header(self, stream_id, frame_data):
        return b"", IdealQpack.on_header(self, stream_id, frame_data)

    def resume_header(self, stream_id):
        return b"", IdealQpack.on_resume(self, stream_id)

    def feed_encoder(self, data):
        return IdealQpack.on_encoder_data(self, data)


class IdealEncoder:
    def apply_settings(self, max_table_capacity, blocked_streams):
        return b""

    def encode(self, stream_id, headers):
        IdealQpack.encoded.append(list(headers))
        token = len(IdealQpack.encoded) - 1
        if IdealQpack.per_instance_tokens:
            # two copies of one connection (C20) must see the same encoder output
            self._n = getattr(self, "_n", -1) + 1
            token = self._n
        return b"", bytes([0xE0, token])  # two opaque bytes naming the header list

    def feed_decoder(self, data):
        return IdealQpack.on_decoder_data(self, data)


class IdealQpack:
    """stand-in for the pylsqpack module"""

    Decoder = IdealDecoder
    Encoder = IdealEncoder
    StreamBlocked = StreamBlocked
    DecompressionFailed = DecompressionFailed
    EncoderStreamError = EncoderStreamError
    DecoderStreamError = DecoderStreamError
    encoded = []
    per_instance_tokens = False
    on_header = staticmethod(lambda dec, sid, data: [])
    on_resume = staticmethod(lambda dec, sid: [])
    on_encoder_data = staticmethod(lambda dec, data: [])
    on_decoder_data = staticmethod(lambda enc, data: None)

    @classmethod
    def reset(cls):
        cls.encoded = []
        cls.per_instance_tokens = False
        cls.on_header = staticmethod(lambda dec, sid, data: [])
        cls.on_resume = staticmethod(lambda dec, sid: [])
        cls.on_encoder_data = staticmethod(lambda dec, data: [])
        cls.on_decoder_data = staticmethod(lambda enc, data: None)


class SymPattern:
    """compiled regular expression usable on symbolic bytes when it is a single character
    class (e.g. b"[A-Z]", b"[\\x00\\r\\n]"); anything else on symbolic input is unsupported"""

    def __init__(self, pat):
        self.pat = pat
        self.cls = self._parse(pat.pattern)

    @staticmethod
    def _parse(p):
        import sre_parse

        try:
            tree = sre_parse.parse(p.decode("latin1") if isinstance(p, bytes) else p)
        except Exception:
            return None
        if len(tree) != 1:
            return None
        op, arg = tree[0]
        name = str(op)
        if name == "LITERAL":
            return [(arg, arg)], False
        if name != "IN":
            return None
        ranges, neg = [], False
        for o, a in arg:
            o = str(o)
            if o == "NEGATE":
                neg = True
            elif o == "LITERAL":
                ranges.append((a, a))
            elif o == "RANGE":
                ranges.append(a)
            else:
                return None
        return ranges, neg

    def _member(self, c):
        ranges, neg = self.cls
        m = sx.Or(*[sx.And(c >= lo, c <= hi) for lo, hi in ranges])
        return sx.Not(m) if neg else m

    def _sym(self, data, first_only):
        if self.cls is None:
            raise sx.Unsupported("regular expression %r on symbolic bytes" % self.pat.pattern)
        n = len(data)
        idx = range(min(n, 1)) if first_only else range(n)
        for i in idx:
            if sx.truth(self._member(data[i])):
                return True  # truthy match object stand-in
        return None

    def match(self, data, *a):
        return self._sym(data, True) if isinstance(data, sx.SymBytes) else self.pat.match(data, *a)

    def search(self, data, *a):
        return self._sym(data, False) if isinstance(data, sx.SymBytes) else self.pat.search(data, *a)

    def fullmatch(self, data, *a):
        if isinstance(data, sx.SymBytes):
            raise sx.Unsupported("fullmatch on symbolic bytes")
        return self.pat.fullmatch(data, *a)

    def __getattr__(self, name):
        return getattr(self.pat, name)


def h3_shims(extra=()):
    import re

    import aioquic.buffer as ab
    import aioquic.h3.connection as h3

    pats = [(k, SymPattern(v)) for k, v in list(h3.__dict__.items()) if isinstance(v, re.Pattern)]
    names = pats + ["len", "bytes", "min", "max", "isinstance", ("Buffer", TwinBuffer), ("pylsqpack", IdealQpack), ("encode_uint_var", twin_encode_uint_var)]
    return {h3: names + list(extra)}


def twin_encode_uint_var(value):
    buf = TwinBuffer(capacity=8)
    buf.push_uint_var(value)
    return buf.data


class patched_qpack:
    """context manager used in replay mode: the real h3 module with the ideal QPACK installed
    (QPACK is environment in both modes; the H3 code itself is unshimmed)"""

    def __enter__(self):
        import aioquic.h3.connection as h3

        self.h3 = h3
        self.saved = h3.pylsqpack
        h3.pylsqpack = IdealQpack
        return self

    def __exit__(self, *a):
        self.h3.pylsqpack = self.saved
        return False
