"""Harnesses that run the C helpers' LLVM IR under ll2smt from arbitrary valid states."""
from __future__ import annotations

import atexit
import os
import shutil
import subprocess
import sys
import tempfile
import time

import z3

from . import ll2smt as L
from .ll2smt import Ptr, bv

REPO = os.environ.get("VERIF_REPO", "/repo")
_WORK = None
_MODS = {}


def workdir():
    global _WORK
    if _WORK is None:
        _WORK = tempfile.mkdtemp(prefix="verif_c_")
        pid = os.getpid()

        def _rm():
            if os.getpid() == pid:
                shutil.rmtree(_WORK, ignore_errors=True)

        atexit.register(_rm)
    return _WORK


def module(which):
    """parse the IR of src/aioquic/_buffer.c or _crypto.c (compiled now, from the working tree)"""
    if which not in _MODS:
        ll = L.compile_ir(os.path.join(REPO, "src", "aioquic", "_%s.c" % which), workdir())
        _MODS[which] = L.Module(ll)
    return _MODS[which]


# ----------------------------------------------------------------------------
# Buffer
# ----------------------------------------------------------------------------
CAP_MAX = 1 << 40


def buffer_state(ex, mod):
    cap = z3.BitVec("cap", 64)
    pos = z3.BitVec("pos", 64)
    ex.inputs["cap"] = cap
    ex.inputs["pos"] = pos
    ex.solver.add(z3.ULE(cap, CAP_MAX), z3.ULE(pos, cap))  # representation invariant base <= pos <= end
    buf = ex.new_obj("buf", cap)
    size = mod.size(L.TNamed("%struct.BufferObject"))
    selfo = ex.new_obj("self", bv(size, 64))
    o_base, _ = mod.field_off(L.TNamed("%struct.BufferObject"), 1)
    o_end, _ = mod.field_off(L.TNamed("%struct.BufferObject"), 2)
    o_pos, _ = mod.field_off(L.TNamed("%struct.BufferObject"), 3)
    selfo.slots[o_base] = Ptr(buf, bv(0, 64))
    selfo.slots[o_end] = Ptr(buf, cap)
    selfo.slots[o_pos] = Ptr(buf, pos)
    for k in range(8):  # the bytes at the read position, so that counterexamples can be replayed
        ex.inputs["buf_b%d" % k] = z3.Select(buf.arr, pos + bv(k, 64))
    return {"cap": cap, "pos": pos, "buf": buf, "self": selfo, "offs": (o_base, o_end, o_pos)}


def run_buffer_fn(fname, init=False):
    mod = module("buffer")
    ex = L.Exec(mod)
    if init:
        size = mod.size(L.TNamed("%struct.BufferObject"))
        selfo = ex.new_obj("self", bv(size, 64))
        offs = tuple(mod.field_off(L.TNamed("%struct.BufferObject"), i)[0] for i in (1, 2, 3))
        ctx = {"self": selfo, "offs": offs}
        args = [Ptr(selfo, bv(0, 64)), Ptr(ex.new_obj("args", bv(0, 64)), bv(0, 64)), Ptr(ex.new_obj("kwargs", bv(0, 64)), bv(0, 64))]
        paths = ex.run(fname, args, [selfo])
    else:
        ctx = buffer_state(ex, mod)
        args = [Ptr(ctx["self"], bv(0, 64)), Ptr(ex.new_obj("args", bv(0, 64)), bv(0, 64))]
        paths = ex.run(fname, args, [ctx["buf"], ctx["self"]])
    return ex, paths, ctx


def final_self(path, ctx):
    """the self struct as it is at the end of a path"""
    st = path.state
    for o in st["objs"]:
        if o.name == "self":
            return o
    return ctx["self"]


def final_obj(path, name):
    for o in path.state["objs"]:
        if o.name == name:
            return o
    return None


# ----------------------------------------------------------------------------
# _crypto
# ----------------------------------------------------------------------------
def crypto_self(ex, mod, struct):
    t = L.TNamed(struct)
    size = mod.size(t)
    selfo = ex.new_obj("self", bv(size, 64))
    rt = mod.resolve(t)
    for i, f in enumerate(rt.fields):
        if isinstance(mod.resolve(f), L.TPtr):
            off, _ = mod.field_off(t, i)
            selfo.slots[off] = Ptr(ex.new_obj("ctx%d" % i, bv(0, 64)), bv(0, 64))
    return selfo


CRYPTO_FUNCS = {
    # name: (struct, nargs, cfg)
    "@AEAD_init": ("%struct.AEADObject", 3, {"iv_len": 12, "block": 1, "key_len": 32}),
    "@AEAD_encrypt": ("%struct.AEADObject", 2, {"iv_len": 12, "block": 1, "key_len": 32}),
    "@AEAD_decrypt": ("%struct.AEADObject", 2, {"iv_len": 12, "block": 1, "key_len": 32}),
    "@HeaderProtection_init": ("%struct.HeaderProtectionObject", 3, {"iv_len": 16, "block": 16}),
    "@HeaderProtection_apply": ("%struct.HeaderProtectionObject", 2, {"iv_len": 16, "block": 16}),
    "@HeaderProtection_remove": ("%struct.HeaderProtectionObject", 2, {"iv_len": 16, "block": 16}),
}


def run_crypto_fn(fname, extra_assume=None):
    mod = module("crypto")
    struct, nargs, cfg = CRYPTO_FUNCS[fname]
    ex = L.Exec(mod, dict(cfg, arg_index=[0]))
    selfo = crypto_self(ex, mod, struct)
    args = [Ptr(selfo, bv(0, 64))] + [Ptr(ex.new_obj("pyarg%d" % i, bv(0, 64)), bv(0, 64)) for i in range(nargs - 1)]
    ex.extra_assume = extra_assume
    arr0 = selfo.arr
    paths = ex.run(fname, args, [selfo])
    return ex, paths, {"self": selfo, "self_arr0": arr0, "mod": mod, "struct": struct}


# ----------------------------------------------------------------------------
# concrete replay against an AddressSanitizer build of the current sources
# ----------------------------------------------------------------------------
INTERPOSE_C = r"""
/* LD_PRELOAD shim used only for replay: makes the byte ranges that libcrypto is
   asked to read/write visible to AddressSanitizer (libcrypto itself is not
   instrumented).  Compiled with -fsanitize=address. */
#define _GNU_SOURCE
#include <dlfcn.h>
#include <string.h>
#include <stddef.h>
static volatile unsigned char sink;
static void *real_sym(const char *name) {
    /* libcrypto is loaded (RTLD_LOCAL) as a dependency of the extension module, after this shim:
       look it up explicitly rather than through RTLD_NEXT */
    static void *h;
    if (!h) h = dlopen("libcrypto.so.3", RTLD_LAZY);
    if (!h) h = dlopen("libcrypto.so.1.1", RTLD_LAZY);
    if (!h) h = dlopen("libcrypto.so", RTLD_LAZY);
    return h ? dlsym(h, name) : 0;
}
static void touch_r(const unsigned char *p, long n) { for (long i = 0; i < n; ++i) sink ^= p[i]; }
static void touch_w(unsigned char *p, long n) { for (long i = 0; i < n; ++i) p[i] = p[i]; }
typedef int (*upd_t)(void*, unsigned char*, int*, const unsigned char*, int);
int EVP_CipherUpdate(void *ctx, unsigned char *out, int *outl, const unsigned char *in, int inl) {
    static upd_t real; if (!real) real = (upd_t)real_sym("EVP_CipherUpdate");
    if (inl > 0) { touch_r(in, inl); if (out) touch_w(out, inl); }
    return real(ctx, out, outl, in, inl);
}
typedef int (*init_t)(void*, const void*, void*, const unsigned char*, const unsigned char*, int);
int EVP_CipherInit_ex(void *ctx, const void *c, void *e, const unsigned char *key, const unsigned char *iv, int enc) {
    static init_t real; if (!real) real = (init_t)real_sym("EVP_CipherInit_ex");
    if (iv) touch_r(iv, 12);
    return real(ctx, c, e, key, iv, enc);
}
typedef int (*ctrl_t)(void*, int, int, void*);
int EVP_CIPHER_CTX_ctrl(void *ctx, int type, int arg, void *ptr) {
    static ctrl_t real; if (!real) real = (ctrl_t)real_sym("EVP_CIPHER_CTX_ctrl");
    if (type == 0x11 && ptr) touch_r(ptr, arg);
    if (type == 0x10 && ptr) touch_w(ptr, arg);
    return real(ctx, type, arg, ptr);
}
"""


def _build(kind):
    """build both extension modules into the scratch dir (kind: asan | plain | fortify) -> dir or None"""
    import fcntl

    d = os.path.join(workdir(), kind)
    os.makedirs(os.path.join(d, "aioquic"), exist_ok=True)
    with open(os.path.join(workdir(), kind + ".lock"), "w") as lk:
        fcntl.flock(lk, fcntl.LOCK_EX)
        if os.path.exists(os.path.join(d, "ok")):
            return d
        flags = {"asan": ["-fsanitize=address,bounds", "-fno-sanitize-recover=bounds", "-fno-omit-frame-pointer", "-g", "-O1"], "plain": ["-O1"], "fortify": ["-O2", "-D_FORTIFY_SOURCE=2"]}[kind]
        for name, libs in (("_buffer", []), ("_crypto", ["-lcrypto"])):
            cmd = ["clang"] + flags + ["-shared", "-fPIC", "-std=c99", "-I" + L.PY_INC, "-DPy_LIMITED_API=0x030A0000", os.path.join(REPO, "src", "aioquic", name + ".c"), "-o", os.path.join(d, "aioquic", name + ".abi3.so")] + libs
            r = subprocess.run(cmd, stdout=subprocess.PIPE, stderr=subprocess.PIPE)
            if r.returncode != 0:
                return None
        if kind == "asan":
            open(os.path.join(d, "interpose.c"), "w").write(INTERPOSE_C)
            r = subprocess.run(["clang", "-fsanitize=address", "-g", "-O0", "-shared", "-fPIC", os.path.join(d, "interpose.c"), "-o", os.path.join(d, "interpose.so"), "-ldl"], stdout=subprocess.PIPE, stderr=subprocess.PIPE)
            if r.returncode != 0:
                return None
        open(os.path.join(d, "aioquic", "__init__.py"), "w").write("")
        open(os.path.join(d, "ok"), "w").write("ok")
    return d


def asan_build():
    return _build("asan")


def plain_build():
    return _build("plain")


def run_under_asan(script, timeout=60):
    """run a python snippet against the ASan build; returns (reported, summary)"""
    d = asan_build()
    if d is None:
        return None, "ASan build failed"
    rt = subprocess.run(["clang", "-print-file-name=libclang_rt.asan-x86_64.so"], stdout=subprocess.PIPE).stdout.decode().strip()
    env = dict(os.environ, LD_PRELOAD=rt + ":" + os.path.join(d, "interpose.so"), PYTHONMALLOC="malloc", ASAN_OPTIONS="detect_leaks=0:abort_on_error=0:exitcode=97:allocator_may_return_null=1", UBSAN_OPTIONS="print_stacktrace=0", PYTHONPATH=d)
    try:
        r = subprocess.run(["/venv/bin/python", "-c", script], env=env, stdout=subprocess.PIPE, stderr=subprocess.PIPE, timeout=timeout)
    except subprocess.TimeoutExpired:
        return None, "timeout"
    err = r.stderr.decode(errors="replace")
    out = r.stdout.decode(errors="replace")
    if "AddressSanitizer" in err and "out-of-memory" not in err and "exceeds maximum supported size" not in err:
        line = [l for l in err.splitlines() if "ERROR: AddressSanitizer" in l or l.startswith("SUMMARY")]
        return True, " | ".join(line)[:400]
    if "runtime error:" in err:
        return True, "UBSan: " + [l for l in err.splitlines() if "runtime error:" in l][0][-300:]
    if r.returncode < 0:
        return True, "crashed with signal %d" % (-r.returncode)
    # intra-object overflows are invisible to ASan: try the same input against a _FORTIFY_SOURCE build
    d2 = _build("fortify")
    if d2 is not None:
        try:
            r2 = subprocess.run(["/venv/bin/python", "-c", script], env=dict(os.environ, PYTHONPATH=d2), stdout=subprocess.PIPE, stderr=subprocess.PIPE, timeout=timeout)
            e2 = r2.stderr.decode(errors="replace")
            if "buffer overflow detected" in e2 or r2.returncode < 0:
                return True, "_FORTIFY_SOURCE=2 build: " + (e2.strip().splitlines() or ["signal %d" % -r2.returncode])[-1][:200]
        except subprocess.TimeoutExpired:
            pass
    return False, (out + err)[-300:]


def run_plain(script, timeout=60):
    d = plain_build()
    if d is None:
        return None, "build failed"
    env = dict(os.environ, PYTHONPATH=d)
    try:
        r = subprocess.run(["/venv/bin/python", "-c", script], env=env, stdout=subprocess.PIPE, stderr=subprocess.PIPE, timeout=timeout)
    except subprocess.TimeoutExpired:
        return None, "timeout"
    return r.returncode, (r.stdout.decode(errors="replace") + r.stderr.decode(errors="replace"))[-400:]
