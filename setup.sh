#!/bin/sh
# Idempotent offline setup: overlay venv on /venv with z3-solver (+crosshair optional).
set -e
cd "$(dirname "$0")"
V=/verif/.venv
if [ ! -x "$V/bin/python" ] || ! "$V/bin/python" -c "import z3, aioquic" 2>/dev/null; then
  rm -rf "$V"
  /venv/bin/python -m venv "$V"
  echo "import site; site.addsitedir('/venv/lib/python3.12/site-packages')" > "$V/lib/python3.12/site-packages/_base.pth"
  PIP_NO_INDEX=1 "$V/bin/pip" install -q --no-index --find-links /opt/veriftools/wheels z3-solver
fi
"$V/bin/python" -c "import z3, aioquic; print('verif venv ok, z3', z3.get_version_string())"
