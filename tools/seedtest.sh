#!/bin/sh
# usage: tools/seedtest.sh <patch.diff> <property-id> [extra check args]
# applies a seeded change to /repo, runs the check, and always reverts.
P="$1"; ID="$2"; shift 2
git -C /repo apply "$P" || exit 3
trap 'git -C /repo checkout -- . ' EXIT INT TERM
cd /verif && ./check "$ID" "$@"
echo "exit=$?"
