#!/bin/bash
# usage: tools/confirm_seed.sh <PID> <A|B>   (uses /tmp/wt_<PID>/_seed/<V>)
# Confirms in the scratch worktree: suite passes with patch, demo fails with patch, demo passes without.
PID=$1; V=$2; WT=/tmp/wt_$PID; S=$WT/_seed/$V
OUT=/verif/seeded/${PID}_$V
cd $WT || exit 2
git checkout -q -- . 
PY="env PYTHONPATH=$WT/src /venv/bin/python"
( cd $S && timeout 600 $PY demo.py >/tmp/seed_${PID}_$V.clean.log 2>&1 ); clean=$?
git apply $S/patch.diff || { echo "$PID $V: patch does not apply"; exit 2; }
if git diff --name-only | grep -q '\.c$'; then /venv/bin/python setup.py build_ext --inplace >/dev/null 2>&1; fi
( cd $S && timeout 600 $PY demo.py >/tmp/seed_${PID}_$V.patched.log 2>&1 ); patched=$?
timeout 1200 $PY -m pytest -q -p no:cacheprovider --timeout=900 -q >/tmp/seed_${PID}_$V.suite.log 2>&1; suite=$?
tailline=$(tail -1 /tmp/seed_${PID}_$V.suite.log)
git checkout -q -- .
if git status --short | grep -q '\.so$'; then cp /repo/src/aioquic/*.so $WT/src/aioquic/; fi
echo "$PID $V: demo_clean_exit=$clean demo_patched_exit=$patched suite_exit=$suite ($tailline)"
if [ $clean -eq 0 ] && [ $patched -ne 0 ] && [ $suite -eq 0 ]; then
  mkdir -p $OUT; cp -r $S/. $OUT/
  cat > $OUT/meta.json <<EOM
{"property": "$PID", "variant": "$V", "confirmed": {"demo_on_clean_tree_exit": $clean, "demo_with_patch_exit": $patched, "test_suite_with_patch_exit": $suite, "suite_summary": "$tailline"},
 "ran": ["cd <scratch worktree> && PYTHONPATH=<wt>/src /venv/bin/python demo.py (clean tree)", "git apply patch.diff", "PYTHONPATH=<wt>/src /venv/bin/python demo.py (patched)", "PYTHONPATH=<wt>/src /venv/bin/python -m pytest -q -p no:cacheprovider --timeout=900 (patched)"],
 "needs": "see notes.md", "detected_by": "TBD"}
EOM
  echo "  kept -> $OUT"
fi
