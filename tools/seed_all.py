#!/usr/bin/env python3
"""apply every kept seeded change to /repo in turn, run the quick check(s) registered for its property
(plus the extra checks listed in EXTRA), always revert, and record the outcome in seeded/<id>/meta.json"""
import json, os, re, subprocess, sys

V = "/verif"
EXTRA = {"C01_A": ["C10"], "C03_B": ["C11"]}
only = sys.argv[1:]
rows = []
for d in sorted(os.listdir(os.path.join(V, "seeded"))):
    if only and d not in only:
        continue
    path = os.path.join(V, "seeded", d)
    patch = os.path.join(path, "patch.diff")
    if not os.path.exists(patch):
        continue
    pid = d.split("_")[0]
    meta_p = os.path.join(path, "meta.json")
    meta = json.load(open(meta_p))
    # what the change needs in order to manifest: the corresponding section of notes.md
    notes = os.path.join(path, "notes.md")
    if os.path.exists(notes) and meta.get("needs", "").startswith("see notes"):
        txt = open(notes).read()
        m = re.search(r"^##[^\n]*(needs|Conditions needed|needed to manifest|order to manifest)[^\n]*\n(.*?)(?=^## )", txt, re.S | re.M | re.I)
        if m:
            meta["needs"] = " ".join(m.group(2).split())[:900]
    results = {}
    for chk in [pid] + EXTRA.get(d, []):
        if subprocess.call(["git", "-C", "/repo", "apply", patch]) != 0:
            results[chk] = "patch does not apply"
            continue
        try:
            p = subprocess.run(["./check", chk, "--tier", "quick"], cwd=V, capture_output=True, text=True)
        finally:
            subprocess.call(["git", "-C", "/repo", "checkout", "--", "."])
        viol = [l for l in p.stdout.splitlines() if l.startswith("VIOLATION")]
        obl = sorted({m.group(1) for l in p.stdout.splitlines() for m in [re.search(r"obligation (\S+?):", l)] if m})
        results[chk] = {"exit": p.returncode, "violations": len(viol), "obligations": obl[:6]}
    caught = [c for c, r in results.items() if isinstance(r, dict) and r["exit"] == 1]
    meta["detected_by"] = {"checks_exit_1": caught, "detail": results, "how": "git -C /repo apply patch.diff; ./check <id> --tier quick; git -C /repo checkout -- ."}
    json.dump(meta, open(meta_p, "w"), indent=1)
    rows.append((d, caught, results))
    print(d, "CAUGHT by " + ",".join(caught) if caught else "MISSED", {c: (r if not isinstance(r, dict) else (r["exit"], r["obligations"][:2])) for c, r in results.items()}, flush=True)
