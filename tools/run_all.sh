#!/bin/sh
# usage: tools/run_all.sh [quick|thorough] [ids...]   -- runs the registered checks one after another
TIER="${1:-quick}"; shift
IDS="${*:-C01 C02 C03 C04 C05 C06 C07 C08 C09 C10 C11 C12 C13 C14 C15 C16 C17 C18 C19 C20}"
cd /verif
for id in $IDS; do
  s=$(date +%s)
  ./check "$id" --tier "$TIER" > "/tmp/run_$id.$TIER.log" 2>&1
  rc=$?
  e=$(date +%s)
  echo "$id $TIER exit=$rc wall=$((e-s))s $(tail -1 /tmp/run_$id.$TIER.log)"
  grep -E "^VIOLATION|^KNOWN-FINDING|^UNREPRODUCED|^VACUOUS" "/tmp/run_$id.$TIER.log" | head -5
done
