#!/usr/bin/env python3
"""usage: manifest_add.py ID ENGINE 'level text' 'level note' 'technique' [design_ref]"""
import json, sys
pid, engine, text, note, tech = sys.argv[1:6]
m = json.load(open('/verif/MANIFEST.json'))
m['checks'] = [c for c in m['checks'] if c['property_id'] != pid]
m['checks'].append({"property_id": pid, "quick_cmd": "./check %s --tier quick" % pid, "thorough_cmd": "./check %s --tier thorough" % pid, "evidence_file": "evidence/%s.json" % pid, "replay_cmd_template": "./check %s --replay {path}" % pid, "engine": engine,
  "level_claimed": {"category": "model_checking", "text": text, "design_ref": "DESIGN.md %s" % pid}, "level_note": note, "technique": tech})
m['checks'].sort(key=lambda c: c['property_id'])
for e in m['engines']:
    if e['name'] in engine and pid not in e['serves_properties']:
        e['serves_properties'].append(pid); e['serves_properties'].sort()
m['not_applicable'] = [n for n in m.get('not_applicable', []) if n['property_id'] != pid]
json.dump(m, open('/verif/MANIFEST.json', 'w'), indent=1)
