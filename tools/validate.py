#!/usr/bin/env python3-vt
import json, sys, glob, jsonschema
ms = json.load(open('/root/.vp/MANIFEST.schema.json')); es = json.load(open('/root/.vp/EVIDENCE.schema.json'))
m = json.load(open('/verif/MANIFEST.json')); jsonschema.validate(m, ms); print("MANIFEST ok,", len(m['checks']), "checks")
for f in sorted(glob.glob('/verif/evidence/*.json')):
    e = json.load(open(f))
    try: jsonschema.validate(e, es); print(f, "ok", e['coverage'].get('obligations'), e['coverage'].get('discharged'))
    except Exception as x: print(f, "INVALID", str(x)[:300])
